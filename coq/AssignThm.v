(* AssignThm.v — reference assignment copies the source element's values (C11).
   For every well-formed parameter list and EVERY shape of the run table: after
   `target = source` (copy form) between two element references of equal field sizes that
   live in different vectors, the target element holds exactly the source's tuple, the
   source is untouched and nothing outside the target element's extent changes.
   Key observation: every step of ElementTraits::assign - the memmove of a run
   [begin K, end INDEX) as well as the object-wise assignment of a MANUAL field - writes,
   at a target address y, the source byte at the same offset from the element start
   (both elements start at storage-aligned addresses and have equal field sizes, so their
   layouts are translates of each other); the run table covers every field. *)
From Coq Require Import ZArith List Bool Lia.
From Cntgs Require Import Base BaseLemmas Layout LayoutThm Mem MemLemmas Vector Proxy Spec Rep ElemLemmas
     CompareThm RunsThm ElemThm CmpContent.
Import ListNotations.
Local Open Scope Z_scope.

Lemma mwrite_at m a bs y : mwrite m a bs y = if inr a (Z.of_nat (length bs)) y then nth (Z.to_nat (y - a)) bs 0 else m y.
Proof. reflexivity. Qed.

Lemma mwrite_mread_at ms sa m da n y : 0 <= Z.of_nat n ->
  mwrite m da (mread ms sa n) y = if inr da (Z.of_nat n) y then ms (y - da + sa) else m y.
Proof.
  intros _. rewrite mwrite_at, mread_length. destruct (inr da (Z.of_nat n) y) eqn:E; [|reflexivity].
  apply inr_true in E. rewrite mread_nth by lia. f_equal. rewrite Z2Nat.id by lia. lia.
Qed.

(* ---------- object-wise copy assignment of a MANUAL field ---------- *)
Lemma assign_objs_copy p sb db : 0 < psz p -> forall n x sa da, m_same x = false ->
  let x' := fst (assign_objs false p sb db x sa da n) in
  m_s x' = m_s x /\ m_same x' = false /\
  forall y, m_d x' y = if inr da (Z.of_nat n * psz p) y then m_s x (y - da + sa) else m_d x y.
Proof.
  intros Hp. induction n as [|n IH]; intros x sa da Hs; cbv zeta.
  - cbn [assign_objs fst]. repeat split; auto. intros y.
    destruct (inr da (Z.of_nat 0 * psz p) y) eqn:E; [apply inr_true in E; lia|reflexivity].
  - cbn [assign_objs]. cbn [andb].
    set (x1 := wr_d x da (mread (m_s x) sa (Z.to_nat (psz p)))).
    assert (Hx1 : m_s x1 = m_s x /\ m_same x1 = false).
    { unfold x1, wr_d. rewrite Hs. cbn [m_s m_same]. auto. }
    destruct Hx1 as [Hx1s Hx1m].
    specialize (IH x1 (sa + psz p) (da + psz p) Hx1m). cbv zeta in IH.
    destruct (assign_objs false p sb db x1 (sa + psz p) (da + psz p) n) as [x3 evs]. cbn [fst] in *.
    destruct IH as (I1 & I2 & I3). repeat split; [congruence|exact I2|].
    intros y. rewrite I3, Hx1s.
    assert (Hd1 : m_d x1 y = if inr da (psz p) y then m_s x (y - da + sa) else m_d x y).
    { unfold x1, wr_d. rewrite Hs. cbn [m_d]. rewrite mwrite_mread_at by lia. rewrite Z2Nat.id by lia. reflexivity. }
    rewrite Hd1.
    replace (Z.of_nat (S n) * psz p) with (Z.of_nat n * psz p + psz p) by (rewrite Nat2Z.inj_succ; ring).
    assert (Hq : 0 <= Z.of_nat n * psz p) by (apply Z.mul_nonneg_nonneg; lia).
    set (q := Z.of_nat n * psz p) in *. clearbody q.
    destruct (inr (da + psz p) q y) eqn:E1; destruct (inr da (psz p) y) eqn:E2;
      destruct (inr da (q + psz p) y) eqn:E3.
    all: repeat match goal with
                | H : inr _ _ _ = true |- _ => apply inr_true in H
                | H : inr _ _ _ = false |- _ => apply inr_false in H
                end.
    all: try reflexivity.
    all: try (f_equal; lia).
    all: exfalso; lia.
Qed.

Lemma last_nth_ {X} : forall (l : list X) d, last l d = nth (length l - 1) l d.
Proof.
  induction l as [|x l IH]; intros d; [reflexivity|]. destruct l as [|y l]; [reflexivity|].
  change (last (x :: y :: l) d) with (last (y :: l) d). rewrite IH.
  replace (length (x :: y :: l) - 1)%nat with (S (length (y :: l) - 1)) by (cbn [length]; lia).
  reflexivity.
Qed.

(* every field can be rebuilt from its bytes *)
Lemma elem_from_of_fields : forall L pv m a t,
  length t = length L -> (length L <= length pv)%nat ->
  (forall j, (j < length L)%nat ->
     mread m (nth j (fst (place_from L pv (cnts_of t) a)) 0) (length (concat (nth j t []))) = concat (nth j t [])) ->
  elem_from L pv m a t.
Proof.
  induction L as [|p L IH]; intros pv m a t Hl Hpv H.
  - destruct t; [exact I|discriminate].
  - destruct pv as [|pt pv]; [cbn [length] in Hpv; lia|]. destruct t as [|f t]; [discriminate|].
    cbn [elem_from]. cbn [cnts_of map] in H. fold (cnts_of t) in H. split.
    + specialize (H O ltac:(cbn [length]; lia)). rewrite place_from_nth0 in H. cbn [nth] in H. exact H.
    + apply IH; [cbn [length] in Hl; lia|cbn [length] in Hpv; lia|].
      intros j Hj. specialize (H (S j) ltac:(cbn [length]; lia)). rewrite place_from_nth0 in H. cbn [nth] in H. exact H.
Qed.

Section Assign.
  Variable L : list param.
  Hypothesis Hwf : wf_plist L = true.
  Variables (ts td : tuple) (fcs fcd : list Z).
  Hypothesis Hts : tuple_ok L fcs 0 ts.
  Hypothesis Htd : tuple_ok L fcd 0 td.
  Hypothesis Hcn : cnts_of td = cnts_of ts.          (* equal field sizes *)
  Variables (ms md : mem) (sa da : Z).               (* element starts *)
  Hypothesis Hsa : 0 <= sa /\ (SA L | sa).
  Hypothesis Hda : 0 <= da /\ (SA L | da).
  Hypothesis Hes : elem_at L ms sa ts.

  Let HF : Forall wfp L := wf_plist_Forall L Hwf.
  Let cn := cnts_of ts.
  Let As := fst (place L cn sa).
  Let Ad := fst (place L cn da).
  Let n := length L.

  Lemma Ad_As j : (j < n)%nat -> nth j Ad 0 = nth j As 0 + (da - sa).
  Proof.
    intros Hj. unfold Ad, As, place.
    replace da with (sa + (da - sa)) at 1 by lia.
    rewrite place_from_shift; [|exact HF|].
    - cbn [fst]. rewrite (nth_indep _ 0 (0 + (da - sa))).
      + rewrite (map_nth (fun x => x + (da - sa))). reflexivity.
      + rewrite map_length, place_from_fst_length; [exact Hj|rewrite (prevs_length L); lia|].
        unfold cn. exact (Hclen L ts fcs Hts).
    - intros p Hp. apply Z.divide_sub_r; (eapply Z.divide_trans; [apply SA_div; eauto|tauto]).
  Qed.

  Lemma cn_len : length cn = n.
  Proof. unfold cn, n. exact (Hclen L ts fcs Hts). Qed.

  Lemma cn_nonneg j : 0 <= nth j cn 0.
  Proof. unfold cn. rewrite nth_cnts_of. lia. Qed.

  Lemma len_nonneg j : (j < n)%nat -> 0 <= nth j cn 0 * psz (nth j L pparam0).
  Proof. intros Hj. apply Z.mul_nonneg_nonneg; [apply cn_nonneg|]. pose proof (psz_pos L Hwf j Hj). lia. Qed.

  (* fields are laid out in order *)
  Lemma As_step j : (S j < n)%nat -> nth j As 0 + nth j cn 0 * psz (nth j L pparam0) <= nth (S j) As 0.
  Proof.
    intros Hj. unfold As, place. rewrite place_from_nth_succ; [|exact Hj|rewrite (prevs_length L); lia|apply cn_len].
    apply align_if_ge. rewrite Forall_forall in HF.
    destruct (HF (nth (S j) L pparam0) ltac:(apply nth_In; exact Hj)) as [_ Hp]. apply pow2_pos. exact Hp.
  Qed.

  Lemma As_mono : forall d k, (k + d < n)%nat -> nth k As 0 <= nth (k + d) As 0.
  Proof.
    induction d as [|d IH]; intros k Hk; [rewrite Nat.add_0_r; lia|].
    replace (k + S d)%nat with (S (k + d)) by lia.
    pose proof (IH k ltac:(lia)). pose proof (As_step (k + d) ltac:(lia)). pose proof (len_nonneg (k + d) ltac:(lia)). lia.
  Qed.

  Lemma As_end_mono : forall d j, (j + d < n)%nat ->
    nth j As 0 + nth j cn 0 * psz (nth j L pparam0) <=
    nth (j + d) As 0 + nth (j + d) cn 0 * psz (nth (j + d) L pparam0).
  Proof.
    induction d as [|d IH]; intros j Hj; [rewrite Nat.add_0_r; lia|].
    replace (j + S d)%nat with (S (j + d)) by lia.
    pose proof (IH j ltac:(lia)). pose proof (As_step (j + d) ltac:(lia)). pose proof (len_nonneg (S (j + d)) ltac:(lia)). lia.
  Qed.

  (* ---------- the byte range of the target a step writes ---------- *)
  Definition srange (k : nat) (y : Z) : bool :=
    match nth k (runs_asg false L) RSkip with
    | RSkip => false
    | RManual => inr (nth k Ad 0) (nth k cn 0 * psz (nth k L pparam0)) y
    | REnd e => inr (nth k Ad 0) (nth e As 0 + nth e cn 0 * psz (nth e L pparam0) - nth k As 0) y
    end.

  Let fls := ref_fl L ts sa.
  Let fld := ref_fl L td da.

  Lemma nth_fls j : (j < n)%nat -> nth j fls fld0 = (nth j As 0, nth j cn 0).
  Proof. intros Hj. unfold fls. apply (nth_fl L sa ts fcs Hts). exact Hj. Qed.
  Lemma nth_fld j : (j < n)%nat -> nth j fld fld0 = (nth j Ad 0, nth j cn 0).
  Proof.
    intros Hj. unfold fld. rewrite (nth_fl L da td fcd Htd j Hj). rewrite Hcn. reflexivity.
  Qed.

  (* one step of ElementTraits::assign<false>: it writes, at every address of its range, the
     source byte at the same offset from the element start *)
  Lemma assign_one_copy sb db x k : (k < n)%nat -> m_same x = false -> m_s x = ms ->
    let x' := fst (assign_one false L sb db fls fld x k) in
    m_s x' = ms /\ m_same x' = false /\
    forall y, m_d x' y = if srange k y then ms (y - da + sa) else m_d x y.
  Proof.
    intros Hk Hs Hm. cbv zeta. unfold assign_one, srange.
    destruct (runs_asg_structure false L) as [_ [Hs1 _]].
    destruct (nth k (runs_asg false L) RSkip) as [| |e] eqn:Ek.
    - cbn [fst]. auto.
    - rewrite nth_fls, nth_fld by exact Hk. cbn [fst snd].
      pose proof (assign_objs_copy (nth k L pparam0) sb db (psz_pos L Hwf k Hk)
                    (Z.to_nat (nth k cn 0)) x (nth k As 0) (nth k Ad 0) Hs) as H.
      cbv zeta in H. destruct H as (H1 & H2 & H3). repeat split; [congruence|exact H2|].
      intros y. rewrite H3, Hm. rewrite Z2Nat.id by apply cn_nonneg.
      destruct (inr _ _ y); [|reflexivity]. f_equal. rewrite (Ad_As k Hk). lia.
    - destruct (Hs1 _ _ Ek) as [Hb _].
      rewrite !nth_fls, nth_fld by lia. unfold fend. cbn [fst snd].
      unfold wr_d. rewrite Hs. cbn [m_s m_d m_same]. repeat split; [exact Hm|].
      intros y. rewrite Hm.
      set (len := nth e As 0 + nth e cn 0 * psz (nth e L pparam0) - nth k As 0).
      assert (Hlen : 0 <= len).
      { unfold len. pose proof (As_mono (e - k) k ltac:(lia)) as H1. replace (k + (e - k))%nat with e in H1 by lia.
        pose proof (len_nonneg e ltac:(lia)). lia. }
      rewrite mwrite_mread_at by lia. rewrite Z2Nat.id by exact Hlen.
      destruct (inr (nth k Ad 0) len y); [|reflexivity]. f_equal. rewrite (Ad_As k Hk). lia.
  Qed.

  Lemma assign_all_copy sb db : forall ks x, (forall k, In k ks -> (k < n)%nat) ->
    m_same x = false -> m_s x = ms ->
    let x' := fst (assign_all false L sb db fls fld x ks) in
    m_s x' = ms /\
    forall y, m_d x' y = if existsb (fun k => srange k y) ks then ms (y - da + sa) else m_d x y.
  Proof.
    induction ks as [|k ks IH]; intros x Hks Hs Hm; cbv zeta.
    - cbn [assign_all fst existsb]. auto.
    - cbn [assign_all].
      pose proof (assign_one_copy sb db x k (Hks k (or_introl eq_refl)) Hs Hm) as H1. cbv zeta in H1.
      destruct (assign_one false L sb db fls fld x k) as [x1 e1]. cbn [fst] in H1.
      destruct H1 as (A1 & A2 & A3).
      specialize (IH x1 ltac:(intros i Hi; apply Hks; right; exact Hi) A2 A1). cbv zeta in IH.
      destruct (assign_all false L sb db fls fld x1 ks) as [x2 e2]. cbn [fst] in *.
      destruct IH as [I1 I2]. split; [exact I1|]. intros y. rewrite I2, A3. cbn [existsb].
      destruct (srange k y); destruct (existsb (fun k0 => srange k0 y) ks); reflexivity.
  Qed.

  (* every byte of every field of the target element is written *)
  Lemma field_covered j y : (j < n)%nat ->
    nth j Ad 0 <= y < nth j Ad 0 + nth j cn 0 * psz (nth j L pparam0) ->
    existsb (fun k => srange k y) (seq 0 n) = true.
  Proof.
    intros Hj Hy. destruct (runs_asg_structure false L) as [Hcov [Hs1 _]].
    apply existsb_exists. destruct (Hcov j Hj) as [Hm | (k & e & Hke & Hk)].
    - exists j. split; [apply in_seq; lia|]. unfold srange. rewrite Hm. apply inr_true. lia.
    - destruct (Hs1 _ _ Hk) as [Hb _]. exists k. split; [apply in_seq; fold n in Hb; lia|].
      unfold srange. rewrite Hk. apply inr_true.
      pose proof (As_mono (j - k) k ltac:(fold n in Hb; lia)) as M1. replace (k + (j - k))%nat with j in M1 by lia.
      pose proof (As_end_mono (e - j) j ltac:(fold n in Hb; lia)) as M2. replace (j + (e - j))%nat with e in M2 by lia.
      fold n in Hb. rewrite (Ad_As j Hj) in Hy. rewrite (Ad_As k ltac:(lia)). lia.
  Qed.

  (* nothing outside the target element's extent is written *)
  Lemma srange_inside k y : (k < n)%nat -> srange k y = true ->
    da <= y < da + (snd (place L cn sa) - sa).
  Proof.
    intros Hk H. unfold srange in H. destruct (runs_asg_structure false L) as [_ [Hs1 _]].
    assert (Hfirst : nth 0 As 0 = sa).
    { pose proof (place_first L cn sa Hwf (tuple_ok_cnt_ok L _ _ _ Hts) (proj1 Hsa) (proj2 Hsa)) as Hf.
      unfold As. destruct (fst (place L cn sa)) as [|x xs] eqn:E; [|exact Hf].
      pose proof (place_from_fst_length L (prevs L) cn sa ltac:(rewrite (prevs_length L); lia) cn_len) as Hl.
      unfold place in E. rewrite E in Hl. cbn [length] in Hl. unfold n in Hk. lia. }
    assert (Hlast : forall j, (j < n)%nat ->
              nth j As 0 + nth j cn 0 * psz (nth j L pparam0) <= snd (place L cn sa)).
    { intros j Hj. pose proof (As_end_mono (n - 1 - j) j ltac:(lia)) as M.
      replace (j + (n - 1 - j))%nat with (n - 1)%nat in M by lia.
      assert (Hend : nth (n - 1) As 0 + nth (n - 1) cn 0 * psz (nth (n - 1) L pparam0) = snd (place L cn sa)).
      { pose proof (place_from_last L (prevs L) cn sa (wf_plist_nonempty L Hwf)
                      ltac:(rewrite (prevs_length L); lia) cn_len) as Hl.
        unfold fend in Hl. fold (place L cn sa) in Hl. rewrite <- Hl.
        assert (Hlen2 : length (combine (fst (place L cn sa)) cn) = n).
        { rewrite combine_length. unfold place. rewrite place_from_fst_length, cn_len; [apply Nat.min_id|rewrite (prevs_length L); lia|apply cn_len]. }
        rewrite (last_nth_ (combine (fst (place L cn sa)) cn) fld0), Hlen2.
        rewrite (last_nth_ L pparam0). fold n.
        pose proof (nth_fls (n - 1) ltac:(lia)) as E. unfold fls, ref_fl in E. fold cn in E. rewrite E. reflexivity. }
      lia. }
    pose proof (As_mono k 0 ltac:(lia)) as M0. cbn [Nat.add] in M0.
    destruct (nth k (runs_asg false L) RSkip) as [| |e] eqn:Ek; [discriminate| |].
    - apply inr_true in H. rewrite (Ad_As k Hk) in H. pose proof (Hlast k Hk). lia.
    - destruct (Hs1 _ _ Ek) as [Hb _]. fold n in Hb. apply inr_true in H. rewrite (Ad_As k Hk) in H.
      pose proof (Hlast e ltac:(lia)). lia.
  Qed.

  (* ---------- reference assignment, copy form, source and target in different vectors ---------- *)
  Theorem ref_assign_copy sb db :
    let x' := fst (assign_all false L sb db fls fld {| m_s := ms; m_d := md; m_same := false |} (seq 0 n)) in
    m_s x' = ms /\
    elem_at L (m_d x') da ts /\
    (forall y, ~ (da <= y < da + (elem_end L sa ts - sa)) -> m_d x' y = md y).
  Proof.
    pose proof (assign_all_copy sb db (seq 0 n) {| m_s := ms; m_d := md; m_same := false |}
                  ltac:(intros k Hk; apply in_seq in Hk; lia) eq_refl eq_refl) as H. cbv zeta in H.
    cbv zeta. destruct (assign_all false L sb db fls fld _ (seq 0 n)) as [x' evs]. cbn [fst] in *.
    destruct H as [H1 H2]. cbn [m_d] in H2. split; [exact H1|]. split.
    - unfold elem_at. apply elem_from_of_fields.
      + eapply tuple_ok_length; eauto.
      + rewrite (prevs_length L). lia.
      + intros j Hj. fold (place L (cnts_of ts) da). fold cn. fold Ad.
        change (concat (nth j ts [])) with (fb ts j).
        transitivity (mread ms (nth j As 0) (length (fb ts j))); [|exact (field_bytes L ms sa ts Hes j Hj)].
        unfold mread. apply map_ext_in. intros i Hi. apply in_seq in Hi.
        rewrite H2.
        assert (Hlen : Z.of_nat (length (fb ts j)) = nth j cn 0 * psz (nth j L pparam0)).
        { apply (fb_len L Hwf ts fcs Hts j Hj). }
        rewrite (field_covered j (nth j Ad 0 + Z.of_nat i) Hj) by lia.
        f_equal. rewrite (Ad_As j Hj). lia.
    - intros y Hy. rewrite H2.
      destruct (existsb (fun k => srange k y) (seq 0 n)) eqn:E; [|reflexivity].
      exfalso. apply existsb_exists in E. destruct E as (k & Hk & Hr). apply in_seq in Hk.
      apply Hy. unfold elem_end. fold cn. apply (srange_inside k y); [lia|exact Hr].
  Qed.
End Assign.

(* ---------- field-wise copy assignment between elements (FixedSize / plain lists) ---------- *)
From Cntgs Require Import Elem.
Theorem elem_copy_assign_fieldwise_spec L : wf_plist L = true ->
  forall pocca ae d src ts td fcs fcd junk nb,
  tuple_ok L fcs 0 ts -> tuple_ok L fcd 0 td -> cnts_of td = cnts_of ts ->
  elem_holds L src ts -> elem_holds L d td ->
  (fixed_or_plain L && (negb pocca || ae) && match e_bid d with Some _ => true | None => false end) = true ->
  let '(d', evs, nb') := elem_copy_assign pocca ae L d src junk nb in
  elem_holds L d' ts /\ e_bid d' = e_bid d /\ e_units d' = e_units d /\
  e_aid d' = (if pocca then e_aid src else e_aid d) /\ nb' = nb.
Proof.
  intros Hwf pocca ae d src ts td fcs fcd junk nb Hts Htd Hcn [Hes Hfs] [Hed Hfd] Hpath.
  unfold elem_copy_assign. rewrite Hpath. unfold assign_fl. rewrite Hfs, Hfd.
  pose proof (ref_assign_copy L Hwf ts td fcs fcd Hts Htd Hcn (e_mem src) (e_mem d) 0 0
                ltac:(split; [lia|apply Z.divide_0_r]) ltac:(split; [lia|apply Z.divide_0_r]) Hes
                (bidn (e_bid src)) (bidn (e_bid d))) as H.
  cbv zeta in H.
  destruct (assign_all false L (bidn (e_bid src)) (bidn (e_bid d)) (ref_fl L ts 0) (ref_fl L td 0)
              {| m_s := e_mem src; m_d := e_mem d; m_same := false |} (seq 0 (length L))) as [x evs].
  cbn [fst] in H. destruct H as (_ & H2 & _).
  unfold elem_holds. cbn [e_mem e_fl e_bid e_units e_aid]. repeat split; try assumption.
  unfold ref_fl. rewrite Hcn. reflexivity.
Qed.
