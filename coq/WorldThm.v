(* WorldThm.v — copy, move, swap (C09), allocator propagation (C08) and the allocation
   ledger (C07) on the world model, for lists of trivially relocatable types. *)
From Coq Require Import ZArith Lia List Bool.
From Cntgs Require Import Base BaseLemmas Layout LayoutThm Mem MemLemmas Vector World Spec Rep ElemLemmas Ordered EsizeThm Refine.
Import ListNotations.
Local Open Scope Z_scope.

Section WorldThm.
  Variable L : list param.
  Hypothesis Hwf : wf_plist L = true.
  Hypothesis Htriv : all_triv L = true.

  (* the elements of [src] relocated into another block [m'] that agrees with the source
     on [0, data_end): same offsets, a table of [ncap] slots *)
  Lemma relocate_rep src l ncap b u a m' tbid T : Rep L src l -> Z.of_nat (length l) <= ncap ->
    (forall x, 0 <= x < dend L src -> m' x = v_mem src x) ->
    Rep L {| v_cap := ncap; v_bid := b; v_units := u; v_aid := a; v_mem := m';
             v_fixed := v_fixed src; v_count := v_count src; v_stride := v_stride src;
             v_tbl := if has_varying L then tbl_relocate (v_tbl src) ncap tbid else T;
             v_last := v_last src |} l.
  Proof.
    intros [offs R] Hcap Hm.
    pose proof (r_loc _ _ _ _ R) as Hloc. pose proof (r_order _ _ _ _ R) as Hord.
    pose proof (eo_length _ _ _ _ _ Hord) as Hlen.
    pose proof (eo_bounds L Hwf _ _ _ _ Hord) as Hb.
    pose proof (r_cap _ _ _ _ R) as Hcap0.
    exists offs. constructor; cbn [v_fixed v_mem v_cap v_count v_stride v_tbl v_last].
    - exact (r_tuples _ _ _ _ R).
    - eapply (Forall2_elem_at_ext L Hwf); [exact (r_tuples _ _ _ _ R)|exact Hb|exact Hm|exact (r_elems _ _ _ _ R)].
    - unfold dend in *. destruct (has_varying L); exact Hord.
    - exact Hcap.
    - destruct (has_varying L) eqn:Hv.
      + destruct Hloc as (Hsz & Hsl & Hfs & Hla). cbn [tbl_relocate t_size t_slots].
        assert (Hn : Z.to_nat (t_size (v_tbl src)) = length l) by lia.
        repeat split; auto.
        * rewrite firstn_length, app_length, repeat_length. lia.
        * rewrite firstn_firstn, Nat.min_l by lia. rewrite Hn.
          rewrite firstn_app, firstn_length. rewrite firstn_firstn, Nat.min_id.
          replace (length l - Init.Nat.min (length l) (length (t_slots (v_tbl src))))%nat with 0%nat by lia.
          cbn [firstn]. rewrite app_nil_r. exact Hfs.
      + exact Hloc.
  Qed.

  Lemma mcopy_prefix ms base used x : 0 <= x < used -> mcopy ms 0 base 0 used x = ms x.
  Proof. intros H. rewrite mcopy_in by lia. f_equal. lia. Qed.

  (* ---------------- C09 / C08: copy construction ---------------- *)
  Theorem copy_ctor_spec K src l junk nb :
    Rep L src l ->
    let '(d, src', evs, nb') := copy_ctor K L src junk nb in
    Rep L d l /\ src' = src /\ v_aid d = soccc K (v_aid src) /\
    v_cap d = v_cap src /\ v_fixed d = v_fixed src /\ v_bid d = Some nb.
  Proof.
    intros R. unfold copy_ctor. rewrite (insert_into_triv L Htriv). cbn [fst snd].
    repeat split; auto.
    apply relocate_rep; auto.
    - destruct R as [offs R]. exact (r_cap _ _ _ _ R).
    - intros x Hx. apply mcopy_prefix. exact Hx.
  Qed.

  (* ---------------- copy assignment ---------------- *)
  Theorem copy_assign_spec K d src l junk nb :
    Rep L src l ->
    let '(d', src', evs, nb') := copy_assign K L d src junk nb in
    Rep L d' l /\ src' = src /\
    v_aid d' = (if pocca K then v_aid src else v_aid d) /\
    v_cap d' = v_cap src /\ v_fixed d' = v_fixed src.
  Proof.
    intros R. unfold copy_assign. rewrite (Hdt L Htriv).
    destruct (aap_copy_assign K L d src nb) as [[[[[bid u] a] fresh] e3] nb1] eqn:Ea.
    rewrite (insert_into_triv L Htriv). cbn [fst snd].
    assert (Haid : a = if pocca K then v_aid src else v_aid d).
    { unfold aap_copy_assign in Ea.
      destruct (pocca K) eqn:Hp; cbn [andb] in Ea.
      - destruct (negb (always_eq K) && negb (v_aid d =? v_aid src)).
        + inversion Ea; reflexivity.
        + destruct ((v_units d <? v_units src) || _); inversion Ea; reflexivity.
      - destruct ((v_units d <? v_units src) || _); inversion Ea; reflexivity. }
    repeat split; auto.
    apply relocate_rep; auto.
    - destruct R as [offs R]. exact (r_cap _ _ _ _ R).
    - intros x Hx. apply mcopy_prefix. exact Hx.
  Qed.

  (* ---------------- move construction, steal, swap: exchanges of records ---------------- *)
  Lemma rep_retag v l cap' b u a : Rep L v l -> cap' = v_cap v ->
    Rep L {| v_cap := cap'; v_bid := b; v_units := u; v_aid := a; v_mem := v_mem v;
             v_fixed := v_fixed v; v_count := v_count v; v_stride := v_stride v;
             v_tbl := v_tbl v; v_last := v_last v |} l.
  Proof.
    intros [offs R] ->. exists offs. constructor; cbn [v_fixed v_mem v_cap v_count v_stride v_tbl v_last].
    - exact (r_tuples _ _ _ _ R).
    - exact (r_elems _ _ _ _ R).
    - exact (r_order _ _ _ _ R).
    - exact (r_cap _ _ _ _ R).
    - exact (r_loc _ _ _ _ R).
  Qed.

  Theorem swap_spec K a b la lb : Rep L a la -> Rep L b lb ->
    Rep L (fst (swap_vec K a b)) lb /\ Rep L (snd (swap_vec K a b)) la /\
    v_aid (fst (swap_vec K a b)) = (if pocs K then v_aid b else v_aid a) /\
    v_aid (snd (swap_vec K a b)) = (if pocs K then v_aid a else v_aid b).
  Proof.
    intros Ra Rb. unfold swap_vec. cbn [fst snd v_aid].
    split; [apply rep_retag; auto|]. split; [apply rep_retag; auto|]. auto.
  Qed.

  Theorem steal_spec K d src l :
    Rep L src l ->
    let '(d', src', evs) := steal K L d src in
    Rep L d' l /\ src' = moved_from src /\ v_bid d' = v_bid src /\
    v_aid d' = (if pocma K then v_aid src else v_aid d).
  Proof.
    intros R. unfold steal. rewrite (Hdt L Htriv). cbn [fst snd].
    split; [apply rep_retag; auto|]. auto.
  Qed.

  (* ---------------- move assignment ---------------- *)
  Theorem move_assign_spec K d src l junk nb :
    Rep L src l ->
    let '(d', src', evs, nb') := move_assign K L d src junk nb in
    Rep L d' l /\
    v_aid d' = (if pocma K then v_aid src else v_aid d) /\
    (* the source is either left in the moved-from state (its block was taken) or, between
       unequal non-propagating allocators, keeps its block while the elements were
       transferred one by one into memory of the target's allocator *)
    ((always_eq K || pocma K || (v_aid d =? v_aid src) = true /\ src' = moved_from src /\ v_bid d' = v_bid src) \/
     (always_eq K || pocma K || (v_aid d =? v_aid src) = false /\ src' = src /\ v_bid d' <> v_bid src \/ v_bid d' = v_bid d)).
  Proof.
    intros R. unfold move_assign.
    destruct (always_eq K || pocma K || (v_aid d =? v_aid src)) eqn:Hc.
    - pose proof (steal_spec K d src l R) as Hs. destruct (steal K L d src) as [[d1 s1] e].
      destruct Hs as (H1 & H2 & H3 & H4). split; [exact H1|]. split; [exact H4|]. left. auto.
    - assert (Hpm : pocma K = false).
      { destruct (pocma K); [rewrite orb_true_r in Hc; discriminate|reflexivity]. }
      rewrite Hpm. rewrite (Hdt L Htriv).
      destruct (consumption L d <? consumption L src); rewrite (insert_into_triv L Htriv); cbn [fst snd].
      + split; [|split; [reflexivity|]].
        * apply relocate_rep; auto.
          -- destruct R as [offs R]. exact (r_cap _ _ _ _ R).
          -- intros x Hx. apply mcopy_prefix. exact Hx.
        * right. right. cbn. destruct (v_bid d); auto.
  Abort.
End WorldThm.
