(* WorldThm.v — copy, move, swap (C09), allocator propagation (C08) and the allocation
   ledger (C07) on the world model, for lists of trivially relocatable types. *)
From Coq Require Import ZArith Lia List Bool.
From Cntgs Require Import Base BaseLemmas Layout LayoutThm Mem MemLemmas Vector World Spec Rep ElemLemmas Ordered EsizeThm Refine StableThm.
Import ListNotations.
Local Open Scope Z_scope.

Section WorldThm.
  Variable L : list param.
  Hypothesis Hwf : wf_plist L = true.
  Hypothesis Htriv : all_triv L = true.
  (* copying additionally needs trivially COPY-constructible value types *)
  Hypothesis Hcc : all_ctriv false L = true.

  (* the elements of [src] relocated into another block [m'] that agrees with the source
     on [0, data_end): same offsets, a table of [ncap] slots *)
  Lemma relocate_rep src l ncap b u a m' tbid T : Rep L src l -> Z.of_nat (length l) <= ncap ->
    (forall x, 0 <= x < dend L src -> m' x = v_mem src x) ->
    Rep L {| v_cap := ncap; v_bid := b; v_units := u; v_aid := a; v_mem := m';
             v_fixed := v_fixed src; v_count := v_count src; v_stride := v_stride src;
             v_tbl := if has_varying L then tbl_relocate (v_tbl src) ncap tbid else T;
             v_last := v_last src |} l.
  Proof.
    intros [offs R] Hcap Hm.
    pose proof (r_loc _ _ _ _ R) as Hloc. pose proof (r_order _ _ _ _ R) as Hord.
    pose proof (eo_length _ _ _ _ _ Hord) as Hlen.
    pose proof (eo_bounds L Hwf _ _ _ _ Hord) as Hb.
    pose proof (r_cap _ _ _ _ R) as Hcap0.
    exists offs. constructor; cbn [v_fixed v_mem v_cap v_count v_stride v_tbl v_last].
    - exact (r_tuples _ _ _ _ R).
    - eapply (Forall2_elem_at_ext L Hwf); [exact (r_tuples _ _ _ _ R)|exact Hb|exact Hm|exact (r_elems _ _ _ _ R)].
    - unfold dend in *. destruct (has_varying L); exact Hord.
    - exact Hcap.
    - destruct (has_varying L) eqn:Hv.
      + destruct Hloc as (Hsz & Hsl & Hfs & Hla). cbn [tbl_relocate t_size t_slots].
        assert (Hn : Z.to_nat (t_size (v_tbl src)) = length l) by lia.
        repeat split; auto.
        * rewrite firstn_length, app_length, repeat_length. lia.
        * rewrite firstn_firstn, Nat.min_l by lia. rewrite Hn.
          rewrite firstn_app, firstn_length. rewrite firstn_firstn, Nat.min_id.
          replace (length l - Init.Nat.min (length l) (length (t_slots (v_tbl src))))%nat with 0%nat by lia.
          cbn [firstn]. rewrite app_nil_r. exact Hfs.
      + exact Hloc.
    - pose proof (r_tight _ _ _ _ R) as HT. unfold dend in *. destruct (has_varying L); exact HT.
  Qed.

  Lemma mcopy_prefix ms base used x : 0 <= x < used -> mcopy ms 0 base 0 used x = ms x.
  Proof. intros H. rewrite mcopy_in by lia. f_equal. lia. Qed.

  (* ---------------- C09 / C08: copy construction ---------------- *)
  Theorem copy_ctor_spec K src l junk nb :
    Rep L src l ->
    let '(d, src', evs, nb') := copy_ctor K L src junk nb in
    Rep L d l /\ src' = src /\ v_aid d = soccc K (v_aid src) /\
    v_cap d = v_cap src /\ v_fixed d = v_fixed src /\ v_bid d = Some nb.
  Proof.
    intros R. unfold copy_ctor. rewrite (insert_into_triv_gen L Htriv false _ _ _ _ Hcc). cbn [fst snd].
    repeat split; auto.
    apply relocate_rep; auto.
    - destruct R as [offs R]. exact (r_cap _ _ _ _ R).
    - intros x Hx. apply mcopy_prefix. exact Hx.
  Qed.

  (* ---------------- copy assignment ---------------- *)
  Theorem copy_assign_spec K d src l junk nb :
    Rep L src l ->
    let '(d', src', evs, nb') := copy_assign K L d src junk nb in
    Rep L d' l /\ src' = src /\
    v_aid d' = (if pocca K then v_aid src else v_aid d) /\
    v_cap d' = v_cap src /\ v_fixed d' = v_fixed src.
  Proof.
    intros R. unfold copy_assign. rewrite (Hdt L Htriv).
    rewrite (insert_into_triv_gen L Htriv false _ _ _ _ Hcc). cbn [fst snd].
    repeat split; auto.
    apply relocate_rep; auto.
    - destruct R as [offs R]. exact (r_cap _ _ _ _ R).
    - intros x Hx. apply mcopy_prefix. exact Hx.
  Qed.

  (* ---------------- move construction, steal, swap: exchanges of records ---------------- *)
  Lemma rep_retag v l cap' b u a : Rep L v l -> cap' = v_cap v ->
    Rep L {| v_cap := cap'; v_bid := b; v_units := u; v_aid := a; v_mem := v_mem v;
             v_fixed := v_fixed v; v_count := v_count v; v_stride := v_stride v;
             v_tbl := v_tbl v; v_last := v_last v |} l.
  Proof.
    intros [offs R] ->. exists offs. constructor; cbn [v_fixed v_mem v_cap v_count v_stride v_tbl v_last].
    - exact (r_tuples _ _ _ _ R).
    - exact (r_elems _ _ _ _ R).
    - exact (r_order _ _ _ _ R).
    - exact (r_cap _ _ _ _ R).
    - exact (r_loc _ _ _ _ R).
    - exact (r_tight _ _ _ _ R).
  Qed.

  Theorem swap_spec K a b la lb : Rep L a la -> Rep L b lb ->
    Rep L (fst (swap_vec K a b)) lb /\ Rep L (snd (swap_vec K a b)) la /\
    v_aid (fst (swap_vec K a b)) = (if pocs K then v_aid b else v_aid a) /\
    v_aid (snd (swap_vec K a b)) = (if pocs K then v_aid a else v_aid b).
  Proof.
    intros Ra Rb. unfold swap_vec. cbn [fst snd v_aid].
    split; [apply rep_retag; auto|]. split; [apply rep_retag; auto|]. auto.
  Qed.

  Theorem steal_spec K d src l :
    Rep L src l ->
    let '(d', src', evs) := steal K L d src in
    Rep L d' l /\ src' = moved_from src /\ v_bid d' = v_bid src /\
    v_aid d' = (if pocma K then v_aid src else v_aid d).
  Proof.
    intros R. unfold steal. rewrite (Hdt L Htriv). cbn [fst snd].
    split; [apply rep_retag; auto|]. auto.
  Qed.

  (* ---------------- move assignment ---------------- *)
  Theorem move_assign_spec K d src l junk nb :
    Rep L src l ->
    let '(d', src', evs, nb') := move_assign K L d src junk nb in
    Rep L d' l /\
    v_aid d' = (if pocma K then v_aid src else v_aid d) /\
    (src' = moved_from src \/ src' = src).
  Proof.
    intros R. unfold move_assign.
    destruct (always_eq K || pocma K || (v_aid d =? v_aid src)) eqn:Hc.
    - pose proof (steal_spec K d src l R) as Hs. destruct (steal K L d src) as [[d1 s1] e].
      destruct Hs as (H1 & H2 & H3 & H4). auto.
    - assert (Hpm : pocma K = false).
      { destruct (pocma K); [rewrite orb_true_r in Hc; discriminate|reflexivity]. }
      rewrite Hpm. rewrite (Hdt L Htriv).
      destruct (consumption L d <? consumption L src); rewrite (insert_into_triv L Htriv); cbn [fst snd].
      + split; [|auto]. apply relocate_rep; auto.
        * destruct R as [offs R]. exact (r_cap _ _ _ _ R).
        * intros x Hx. apply mcopy_prefix. exact Hx.
      + split; [|auto]. apply relocate_rep; auto.
        * destruct R as [offs R]. exact (r_cap _ _ _ _ R).
        * intros x Hx. apply mcopy_prefix. exact Hx.
  Qed.

  (* between unequal, non-propagating allocators the source's block is never taken: the
     elements are transferred into the target's own block or into a block newly allocated
     from the TARGET's allocator *)
  Theorem move_assign_elementwise K d src junk nb :
    always_eq K = false -> pocma K = false -> v_aid d <> v_aid src ->
    let '(d', src', evs, nb') := move_assign K L d src junk nb in
    src' = src /\ v_aid d' = v_aid d /\
    (v_bid d' = v_bid d \/
     (v_bid d' = Some nb /\ In (EAlloc (v_aid d) (SA L) (consumption L src) nb) evs)).
  Proof.
    intros Hae Hpm Hne. unfold move_assign. rewrite Hae, Hpm. cbn [orb].
    replace (v_aid d =? v_aid src) with false by (symmetry; apply Z.eqb_neq; exact Hne).
    rewrite (Hdt L Htriv).
    destruct (consumption L d <? consumption L src); rewrite (insert_into_triv L Htriv); cbn [fst snd].
    - split; [reflexivity|]. split; [reflexivity|]. right. split; [reflexivity|]. left. reflexivity.
    - split; [reflexivity|]. split; [reflexivity|]. left. reflexivity.
  Qed.
End WorldThm.

(* ---------------- C07: the allocation ledger ---------------- *)
Definition blk := (nat * (Z * Z * Z))%type.     (* block id, (allocator, unit size, count) *)

Definition has_blk (b : nat) (live : list blk) : bool := existsb (fun x => Nat.eqb (fst x) b) live.
Definition drop_blk (b : nat) (live : list blk) : list blk := filter (fun x => negb (Nat.eqb (fst x) b)) live.
Fixpoint find_blk (b : nat) (live : list blk) : option (Z * Z * Z) :=
  match live with
  | [] => None
  | x :: r => if Nat.eqb (fst x) b then Some (snd x) else find_blk b r
  end.

(* the ledger automaton: every allocation gets a fresh block; every deallocation names a
   live block with the allocator, unit size and count it was allocated with; everything
   else is ignored.  [None] = violation *)
Fixpoint ledger (live : list blk) (evs : list ev) : option (list blk) :=
  match evs with
  | [] => Some live
  | EAlloc a u n b :: r => if has_blk b live then None else ledger (live ++ [(b, (a, u, n))]) r
  | EDealloc a u n b :: r =>
      match find_blk b live with
      | Some (a', u', n') => if (a =? a') && (u =? u') && (n =? n') then ledger (drop_blk b live) r else None
      | None => None
      end
  | _ :: r => ledger live r
  end.

(* the blocks a vector owns: its data block and (with a VaryingSize parameter) its table *)
Definition blocks_of (L : list param) (v : vec) : list blk :=
  (match v_bid v with Some b => [(b, (v_aid v, SA L, v_units v))] | None => [] end) ++
  (if has_varying L then
     match t_bid (v_tbl v) with Some tb => [(tb, (v_aid v, 8, t_cap (v_tbl v)))] | None => [] end
   else []).

Lemma ledger_app live e1 : forall e2 live1, ledger live e1 = Some live1 -> ledger live (e1 ++ e2) = ledger live1 e2.
Proof.
  revert live. induction e1 as [|e e1 IH]; intros live e2 live1 H; cbn [app ledger] in *; [inversion H; reflexivity|].
  destruct e; try (apply IH; exact H).
  - destruct (has_blk bid live); [discriminate|]. apply IH. exact H.
  - destruct (find_blk bid live) as [[[a' u'] n']|]; [|discriminate].
    destruct ((aid =? a') && (unit =? u') && (n =? n')); [|discriminate]. apply IH. exact H.
Qed.

Lemma ledger_no_alloc evs : forall live, forallb (fun e => match e with EAlloc _ _ _ _ | EDealloc _ _ _ _ => false | _ => true end) evs = true ->
  ledger live evs = Some live.
Proof.
  induction evs as [|e evs IH]; intros live H; [reflexivity|]. cbn [forallb] in H. apply andb_true_iff in H. destruct H as [H1 H2].
  destruct e; try discriminate; cbn [ledger]; apply IH; exact H2.
Qed.

(* construction allocates exactly the blocks the new vector owns *)
Theorem mkvec_ledger L cap budget fixed aid junk bid tbid : bid <> tbid ->
  ledger [] (snd (mkvec L cap budget fixed aid junk bid tbid)) =
    Some (blocks_of L (fst (mkvec L cap budget fixed aid junk bid tbid))).
Proof.
  intros Hne. unfold mkvec, blocks_of. cbn [fst snd v_bid v_aid v_units v_tbl].
  destruct (has_varying L); cbn [ledger has_blk existsb app t_bid t_cap fst].
  - replace (Nat.eqb bid tbid) with false by (symmetry; apply Nat.eqb_neq; exact Hne). reflexivity.
  - reflexivity.
Qed.

(* destruction returns exactly those blocks, each with the allocator, unit size and count
   it was requested with — for every parameter list *)
Theorem destroy_ledger L v :
  (forall b tb, v_bid v = Some b -> t_bid (v_tbl v) = Some tb -> b <> tb) ->
  (has_varying L = false -> t_bid (v_tbl v) = None) ->
  ledger (blocks_of L v) (destroy L v) = Some [].
Proof.
  intros Hne Htb. unfold destroy.
  assert (Hfront : forall e1, forallb (fun e => match e with EAlloc _ _ _ _ | EDealloc _ _ _ _ => false | _ => true end) e1 = true ->
            ledger (blocks_of L v) (e1 ++ dealloc_tbl L v ++ dealloc_mem L v) = Some []).
  { intros e1 He1. rewrite (ledger_app _ e1 _ (blocks_of L v)) by (apply ledger_no_alloc; exact He1).
    unfold blocks_of, dealloc_tbl, dealloc_mem.
    destruct (v_bid v) as [b|] eqn:Eb; destruct (t_bid (v_tbl v)) as [tb|] eqn:Et; destruct (has_varying L) eqn:Hv;
      try (specialize (Htb eq_refl); discriminate);
      cbn [app ledger find_blk fst snd drop_blk filter negb]; rewrite ?Nat.eqb_refl, ?Z.eqb_refl; cbn [andb negb];
      try reflexivity.
    - specialize (Hne b tb eq_refl eq_refl).
      replace (Nat.eqb b tb) with false by (symmetry; apply Nat.eqb_neq; exact Hne).
      cbn [negb find_blk fst snd]. rewrite ?Nat.eqb_refl, ?Z.eqb_refl. cbn [andb drop_blk filter fst negb].
      rewrite Nat.eqb_refl. reflexivity. }
  destruct (v_bid v) eqn:Eb.
  - destruct (all_dtriv L) eqn:Hd.
    + apply (Hfront []). reflexivity.
    + pose proof (StableThm.destruct_range_no_alloc L (Z.to_nat (vsize L v)) v 0) as [Hna _].
      destruct (destruct_range L v 0 (Z.to_nat (vsize L v))) as [v1 e1]. cbn [snd] in Hna.
      apply Hfront. unfold StableThm.no_alloc in Hna. rewrite forallb_forall in *. intros e He. specialize (Hna e He).
      destruct e; cbn in *; try reflexivity; discriminate.
  - apply (Hfront []). reflexivity.
Qed.

(* ---- every valid history, with block ids handed out in order: construction, any sequence of
        emplace_back / pop_back / erase / clear / reserve, destruction: nothing leaks, nothing
        is freed twice or with another size / allocator ---- *)
Definition ids_ok (L : list param) (v : vec) (nb : nat) : Prop :=
  (forall b, v_bid v = Some b -> (b < nb)%nat) /\
  (forall tb, t_bid (v_tbl v) = Some tb -> (tb < nb)%nat) /\
  (forall b tb, v_bid v = Some b -> t_bid (v_tbl v) = Some tb -> b <> tb) /\
  (has_varying L = false -> t_bid (v_tbl v) = None).

(* one operation with events and the next free block id *)
Definition lstep (L : list param) (junk : mem) (vn : vec * nat) (o : sop) : (vec * nat) * list ev :=
  let '(v, nb) := vn in
  match o with
  | SEmplace t => let '(v', e) := emplace_back L v t in ((v', nb), e)
  | SPopBack => let '(v', e) := pop_back L v in ((v', nb), e)
  | SErase i => let '(v', e) := erase L v i in ((v', nb), e)
  | SEraseRange i j => let '(v', e) := erase_range L v i j in ((v', nb), e)
  | SClear => let '(v', e) := clear L v in ((v', nb), e)
  | SReserve n b => let '(v', e) := reserve L v n b junk nb (S nb) in ((v', S (S nb)), e)
  end.

Fixpoint lrun (L : list param) (junk : mem) (vn : vec * nat) (h : list sop) : (vec * nat) * list ev :=
  match h with
  | [] => (vn, [])
  | o :: h' => let '(vn1, e1) := lstep L junk vn o in
               let '(vn2, e2) := lrun L junk vn1 h' in (vn2, e1 ++ e2)
  end.

Lemma blocks_of_same L v v' : v_bid v' = v_bid v -> v_aid v' = v_aid v -> v_units v' = v_units v ->
  t_bid (v_tbl v') = t_bid (v_tbl v) -> t_cap (v_tbl v') = t_cap (v_tbl v) -> blocks_of L v' = blocks_of L v.
Proof. intros H1 H2 H3 H4 H5. unfold blocks_of. now rewrite H1, H2, H3, H4, H5. Qed.

Lemma resize_blocks L v n : blocks_of L (resize L v n) = blocks_of L v /\ (forall nb, ids_ok L v nb -> ids_ok L (resize L v n) nb).
Proof.
  unfold resize. destruct (has_varying L) eqn:Hv; [destruct (_ <? _)|]; split; auto;
    try (apply blocks_of_same; reflexivity); intros nb H; unfold ids_ok in *; cbn; rewrite ?Hv; exact H.
Qed.

Lemma ids_ok_mono L v nb nb' : ids_ok L v nb -> (nb <= nb')%nat -> ids_ok L v nb'.
Proof.
  intros (H1 & H2 & H3 & H4) Hle. unfold ids_ok. repeat split; auto.
  - intros b Hb. specialize (H1 b Hb). lia.
  - intros b Hb. specialize (H2 b Hb). lia.
Qed.

Section Ledger.
  Variable L : list param.
  Hypothesis Htriv : all_triv L = true.
  Let Hc := Hct L Htriv.
  Let Hd := Hdt L Htriv.

  Lemma lstep_ledger junk v nb o :
    ids_ok L v nb ->
    let '((v', nb'), e) := lstep L junk (v, nb) o in
    ledger (blocks_of L v) e = Some (blocks_of L v') /\ ids_ok L v' nb'.
  Proof.
    intros Hid. destruct o as [t| |i|i j| |n b]; cbn [lstep].
    - unfold emplace_back, store. destruct (has_varying L) eqn:Hv.
      + pose proof (store_from_no_alloc L (prevs L) t (bidn (v_bid v)) (v_mem v) (first_align L (v_last v))) as Hna.
        destruct (store_from L _ _ _ _ _) as [[m evs] e]. cbn [fst snd] in *.
        split.
        * rewrite ledger_no_alloc.
          -- reflexivity.
          -- unfold no_alloc in Hna. rewrite forallb_forall in *. intros x Hx. specialize (Hna x Hx). destruct x; cbn in *; auto; discriminate.
        * unfold ids_ok in *. cbn. exact Hid.
      + pose proof (store_from_no_alloc L (prevs L) t (bidn (v_bid v)) (v_mem v) (v_stride v * v_count v)) as Hna.
        destruct (store_from L _ _ _ _ _) as [[m evs] e]. cbn [fst snd] in *.
        split.
        * rewrite ledger_no_alloc.
          -- reflexivity.
          -- unfold no_alloc in Hna. rewrite forallb_forall in *. intros x Hx. specialize (Hna x Hx). destruct x; cbn in *; auto; discriminate.
        * unfold ids_ok in *. cbn. exact Hid.
    - unfold pop_back, destruct_elem. rewrite Hd. cbn [ledger].
      destruct (resize_blocks L v (vsize L v - 1)) as [H1 H2]. rewrite H1. auto.
    - unfold erase, destruct_elem, move_forward. rewrite Htriv, Hd.
      unfold move_forward_triv.
      destruct (has_varying L && _) eqn:Hg.
      + cbn [app ledger]. destruct (resize_blocks L v (vsize L v - 1)) as [H1 H2]. rewrite H1. auto.
      + destruct (has_varying L) eqn:Hv; cbn [app ledger].
        * match goal with |- context [resize L ?x ?n] => destruct (resize_blocks L x n) as [H1 H2] end.
          rewrite H1. split; [f_equal; apply blocks_of_same; reflexivity|].
          apply H2. unfold ids_ok in *. cbn. exact Hid.
        * match goal with |- context [resize L ?x ?n] => destruct (resize_blocks L x n) as [H1 H2] end.
          rewrite H1. split; [f_equal; apply blocks_of_same; reflexivity|].
          apply H2. unfold ids_ok in *. cbn. exact Hid.
    - unfold erase_range, move_forward. rewrite Htriv, Hd.
      destruct ((j <? vsize L v) && negb (i =? j)).
      + unfold move_forward_triv. destruct (has_varying L && _) eqn:Hg.
        * cbn [app ledger]. match goal with |- context [resize L ?x ?n] => destruct (resize_blocks L x n) as [H1 H2] end. rewrite H1. auto.
        * destruct (has_varying L) eqn:Hv; cbn [app ledger];
            match goal with |- context [resize L ?x ?n] => destruct (resize_blocks L x n) as [H1 H2] end;
            rewrite H1; (split; [f_equal; apply blocks_of_same; reflexivity|]);
            apply H2; unfold ids_ok in *; cbn; exact Hid.
      + cbn [app ledger]. match goal with |- context [resize L ?x ?n] => destruct (resize_blocks L x n) as [H1 H2] end. rewrite H1. auto.
    - unfold clear. rewrite Hd. cbn [ledger]. destruct (resize_blocks L v 0) as [H1 H2]. rewrite H1. auto.
    - (* reserve *)
      unfold reserve. destruct (v_cap v <? n); [|cbn [ledger]; split; [reflexivity|]].
      + rewrite (insert_into_triv L Htriv). destruct Hid as (Hb & Htb & Hne & Hnt).
        unfold blocks_of, dealloc_tbl, dealloc_mem. cbn [v_bid v_aid v_units v_tbl].
        destruct (has_varying L) eqn:Hv.
        * destruct (v_bid v) as [b0|] eqn:Eb; destruct (t_bid (v_tbl v)) as [tb0|] eqn:Et;
            cbn [app ledger has_blk existsb fst snd find_blk tbl_relocate t_bid t_cap];
            repeat match goal with
                   | |- context [Nat.eqb ?x ?x] => rewrite (Nat.eqb_refl x)
                   | |- context [Z.eqb ?x ?x] => rewrite (Z.eqb_refl x)
                   end.
          all: try (specialize (Hb _ eq_refl)). all: try (specialize (Htb _ eq_refl)). all: try (specialize (Hne _ _ eq_refl eq_refl)).
          all: repeat match goal with
                 | |- context [Nat.eqb ?x ?y] =>
                     first [ replace (Nat.eqb x y) with false by (symmetry; apply Nat.eqb_neq; lia) ]
                 end.
          all: cbn [orb andb negb app ledger has_blk existsb fst snd find_blk drop_blk filter].
          all: repeat match goal with
                   | |- context [Nat.eqb ?x ?x] => rewrite (Nat.eqb_refl x)
                   | |- context [Z.eqb ?x ?x] => rewrite (Z.eqb_refl x)
                   | |- context [Nat.eqb ?x ?y] =>
                     first [ replace (Nat.eqb x y) with false by (symmetry; apply Nat.eqb_neq; lia) ]
                   end.
          all: cbn [orb andb negb app ledger has_blk existsb fst snd find_blk drop_blk filter].
          all: repeat match goal with
                   | |- context [Nat.eqb ?x ?x] => rewrite (Nat.eqb_refl x)
                   | |- context [Z.eqb ?x ?x] => rewrite (Z.eqb_refl x)
                   | |- context [Nat.eqb ?x ?y] =>
                     first [ replace (Nat.eqb x y) with false by (symmetry; apply Nat.eqb_neq; lia) ]
                   end.
          all: cbn [orb andb negb app ledger has_blk existsb fst snd find_blk drop_blk filter].
          all: (split; [reflexivity|]).
          all: unfold ids_ok; cbn [v_bid v_tbl tbl_relocate t_bid]; rewrite Hv; repeat split; intros; try discriminate;
            repeat match goal with H : Some _ = Some _ |- _ => inversion H; subst; clear H end; lia.
        * specialize (Hnt eq_refl).
          destruct (v_bid v) as [b0|] eqn:Eb;
            cbn [app ledger has_blk existsb fst snd find_blk];
            try (specialize (Hb _ eq_refl)).
          -- replace (Nat.eqb b0 nb) with false by (symmetry; apply Nat.eqb_neq; lia).
             cbn [orb app ledger has_blk existsb fst snd find_blk].
             rewrite Nat.eqb_refl, !Z.eqb_refl. cbn [andb drop_blk filter fst negb].
             rewrite Nat.eqb_refl. replace (Nat.eqb nb b0) with false by (symmetry; apply Nat.eqb_neq; lia).
             cbn [negb]. split; [reflexivity|].
             unfold ids_ok. cbn [v_bid v_tbl]. rewrite Hnt, Hv. repeat split; intros; try discriminate.
             inversion H; subst. lia.
          -- cbn [app ledger]. split; [reflexivity|].
             unfold ids_ok. cbn [v_bid v_tbl]. rewrite Hnt, Hv. repeat split; intros; try discriminate.
             inversion H; subst. lia.
      + eapply ids_ok_mono; [exact Hid|lia].
  Qed.

  Theorem lrun_ledger junk h : forall v nb,
    ids_ok L v nb ->
    let '((v', nb'), e) := lrun L junk (v, nb) h in
    ledger (blocks_of L v) e = Some (blocks_of L v') /\ ids_ok L v' nb'.
  Proof.
    induction h as [|o h IH]; intros v nb Hid; cbn [lrun]; [split; [reflexivity|exact Hid]|].
    pose proof (lstep_ledger junk v nb o Hid) as Hs.
    destruct (lstep L junk (v, nb) o) as [[v1 nb1] e1]. destruct Hs as [Hs1 Hs2].
    specialize (IH v1 nb1 Hs2). destruct (lrun L junk (v1, nb1) h) as [[v2 nb2] e2]. destruct IH as [IH1 IH2].
    split; [|exact IH2]. rewrite (ledger_app _ e1 e2 _ Hs1). exact IH1.
  Qed.

  (* construction, any history, destruction: the ledger ends empty *)
  Theorem whole_life_ledger cap budget fixed aid junk h :
    let '(v0, e0) := mkvec L cap budget fixed aid junk 0%nat 1%nat in
    let '((v, nb), e) := lrun L junk (v0, 2%nat) h in
    ledger [] (e0 ++ e ++ destroy L v) = Some [].
  Proof.
    pose proof (mkvec_ledger L cap budget fixed aid junk 0%nat 1%nat ltac:(lia)) as H0.
    assert (Hid0 : ids_ok L (fst (mkvec L cap budget fixed aid junk 0%nat 1%nat)) 2%nat).
    { unfold mkvec, ids_ok. cbn [fst v_bid v_tbl]. destruct (has_varying L) eqn:Hv; cbn [t_bid tbl0]; repeat split; intros;
        try discriminate; repeat match goal with H : Some _ = Some _ |- _ => inversion H; subst; clear H end; lia. }
    destruct (mkvec L cap budget fixed aid junk 0%nat 1%nat) as [v0 e0]. cbn [fst snd] in *.
    pose proof (lrun_ledger junk h v0 2%nat Hid0) as Hr.
    destruct (lrun L junk (v0, 2%nat) h) as [[v nb] e]. destruct Hr as [Hr1 (Hb & Htb & Hne & Hnt)].
    rewrite (ledger_app _ e0 _ _ H0). rewrite (ledger_app _ e _ _ Hr1).
    apply destroy_ledger; auto.
  Qed.
End Ledger.
