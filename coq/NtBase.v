(* NtBase.v — small frame lemmas about destruction shared by NtRefine.v and FixedErase.v *)
From Coq Require Import ZArith Lia List Bool.
From Cntgs Require Import Base BaseLemmas Layout LayoutThm Mem MemLemmas Vector Spec Rep ElemLemmas Ordered
  EsizeThm Refine LifeThm.
Import ListNotations.
Local Open Scope Z_scope.

(* ---------- scribbling over destroyed objects ---------- *)
Lemma scribble_out : forall n m a sz pat x, length pat = Z.to_nat sz -> 0 < sz ->
  ~ (a <= x < a + Z.of_nat n * sz) -> scribble m a sz n pat x = m x.
Proof.
  induction n as [|n IH]; intros m a sz pat x Hl Hs Hx; [reflexivity|].
  cbn [scribble]. rewrite IH; auto; [|nia].
  apply mwrite_out. rewrite Hl, Z2Nat.id by lia. nia.
Qed.

Lemma dead_bytes_length n : length (dead_bytes n) = Z.to_nat n.
Proof. unfold dead_bytes. apply repeat_length. Qed.

Lemma ordered_from_le es : forall lo hi, ordered_from lo es hi -> lo <= hi.
Proof.
  induction es as [|[b e] es IH]; intros lo hi H; cbn [ordered_from] in H; [exact H|].
  destruct H as (H1 & H2 & H). specialize (IH _ _ H). lia.
Qed.

(* destroying the fields of an element leaves everything outside the element untouched *)
Lemma destruct_fields_frame L : forall cnts xs bid m lo hi y,
  Forall wfp L -> Forall (fun c => 0 <= c) cnts ->
  ordered_from lo (extents L cnts xs) hi -> ~ (lo <= y < hi) ->
  fst (destruct_fields L (combine xs cnts) bid m) y = m y.
Proof.
  induction L as [|p L IH]; intros cnts xs bid m lo hi y HF Hc Ho Hy; [reflexivity|].
  destruct xs as [|x xs]; [reflexivity|]. destruct cnts as [|c cnts]; [reflexivity|].
  cbn [combine destruct_fields]. cbn [extents ordered_from] in Ho. destruct Ho as (H1 & H2 & Ho).
  apply Forall_cons_iff in HF. destruct HF as [[Hs _] HF]. inversion Hc; subst.
  pose proof (ordered_from_le _ _ _ Ho) as Hle.
  specialize (IH cnts xs bid (if ntd p then scribble m x (psz p) (Z.to_nat c) (dead_bytes (psz p)) else m)
                 (x + c * psz p) hi y HF ltac:(assumption) Ho ltac:(lia)).
  destruct (destruct_fields L (combine xs cnts) bid _) as [m2 evs2]. cbn [fst] in *.
  rewrite IH. destruct (ntd p); [|reflexivity].
  apply scribble_out; [apply dead_bytes_length|exact Hs|]. rewrite Z2Nat.id by lia. lia.
Qed.


(* erase(first, first): the empty range - nothing is destroyed, nothing moves, no event, the
   vector is the very same record; every list, every position *)
Theorem erase_empty_range_identity L v i : erase_range L v i i = (v, []).
Proof.
  unfold erase_range. rewrite Z.sub_diag. cbn [Z.to_nat destruct_range].
  assert (E0 : (if all_dtriv L then (v, @nil ev) else (v, [])) = (v, [])) by (destruct (all_dtriv L); reflexivity).
  rewrite E0. rewrite Z.eqb_refl, andb_false_r. cbn [negb app]. rewrite Z.sub_0_r.
  f_equal. unfold resize, vsize. destruct (has_varying L).
  - rewrite Z.ltb_irrefl. reflexivity.
  - destruct v; reflexivity.
Qed.
