(* C15 — emplace_back stores T(source item) whatever form the source takes.
   Proved over the modelled type universe (bool, unsigned / signed integers and enumerations
   of every width, float / double, pointers into a class hierarchy with a non-zero base
   offset, trivially copyable classes with a converting constructor / conversion operator,
   a class with user-provided copy and move) and all eight source forms x lvalue / rvalue:
   whichever path the dispatch takes (memcpy, uninitialized_copy, uninitialized_move), the
   stored objects are item by item the representation of T(source item), exactly n items
   are stored; the memcpy path is only taken where construction keeps the representation;
   lvalue ranges are never moved from, rvalue ranges and move_iterators exactly once per
   consumed item.  The rule of the pinned tree is refuted (repaired: fix commit in /repo). *)
From Coq Require Import ZArith List Bool.
From Cntgs Require Import Base Mem Construct ConstructThm.
Import ListNotations.
Local Open Scope Z_scope.

Theorem C15_memcpy_path_is_sound : forall T U v,
  wf_vty T -> memcpy_compatible T U = true -> in_range U v ->
  repr T (conv U T v) = repr U v.
Proof. exact memcpy_compatible_sound. Qed.
Print Assumptions C15_memcpy_path_is_sound.

(* T(item) where the item is consumed as an lvalue, T(std::move(item)) where the dispatch moves
   (rvalue ranges that are not memcpy'd, move_iterators): convm; the two differ for one pair of
   the universe only (Handle <- Raw, a trivially copyable source whose conversion adopts from
   an rvalue), C15_value_category_matters_only_there *)
Theorem C15_stored_objects_are_converted_items : forall f rv T U src n,
  wf_vty T -> Forall (in_range U) src ->
  stored f rv T U src n = map (fun v => repr T (convm (moves f rv T U) U T v)) (firstn n src) /\
  length (stored f rv T U src n) = Nat.min n (length src).
Proof. exact stored_is_converted. Qed.
Print Assumptions C15_stored_objects_are_converted_items.

Theorem C15_value_category_matters_only_there : forall b U T v,
  ~ (T = VHandle /\ U = VRaw) -> convm b U T v = conv U T v.
Proof. exact value_category_irrelevant. Qed.
Print Assumptions C15_value_category_matters_only_there.

Example C15_move_iterator_adopts :
  stored FMoveIter false VHandle VRaw [7; 9] 2 = [[7;0;0;0;1;0;0;0]; [9;0;0;0;1;0;0;0]] /\
  stored FContigIter false VHandle VRaw [7; 9] 2 = [[7;0;0;0;0;0;0;0]; [9;0;0;0;0;0;0;0]].
Proof. vm_compute. split; reflexivity. Qed.

Theorem C15_lvalue_sources_are_not_moved_from : forall f T U src n, is_range f = true ->
  moved_from f false T U src n = repeat 0 (length src).
Proof. exact lvalue_sources_untouched. Qed.
Print Assumptions C15_lvalue_sources_are_not_moved_from.

Theorem C15_rvalue_ranges_are_moved_from_once : forall f T U src n, is_range f = true ->
  (has_data_and_size f && memcpy_compatible T U) = false ->
  moved_from f true T U src n = repeat 1 (Nat.min n (length src)) ++ repeat 0 (length src - n).
Proof. exact rvalue_range_moved_once. Qed.
Print Assumptions C15_rvalue_ranges_are_moved_from_once.

Theorem C15_move_iterators_are_moved_from_once : forall T U src n,
  moved_from FMoveIter false T U src n = repeat 1 (Nat.min n (length src)) ++ repeat 0 (length src - n).
Proof. exact move_iterator_moved_once. Qed.
Print Assumptions C15_move_iterators_are_moved_from_once.

(* the pinned tree's MEMCPY_COMPATIBLE (equal size, trivially copyable, equal
   floating-point-ness) does not have this property *)
Theorem C15_pinned_rule_refuted :
  exists T U v, memcpy_compatible_old T U = true /\ in_range U v /\ repr T (conv U T v) <> repr U v.
Proof. exact memcpy_compatible_old_refuted. Qed.
Print Assumptions C15_pinned_rule_refuted.

(* non-vacuity: the fast path is taken for the cases it is meant for, and not for the
   three families the pinned rule got wrong *)
Example C15_examples :
  memcpy_compatible (VUInt 4) (VSInt 4) = true /\ memcpy_compatible (VSInt 8) (VEnumS 8) = true /\
  memcpy_compatible (VFloat 4) (VFloat 4) = true /\ memcpy_compatible (VPtr 0) (VPtr 0) = true /\
  memcpy_compatible VBool (VUInt 1) = false /\ memcpy_compatible VCels VFahr = false /\
  memcpy_compatible (VSInt 4) VWrap = false /\ memcpy_compatible (VPtr 2) (VPtr 0) = false /\
  memcpy_compatible (VUInt 4) (VFloat 4) = false /\
  stored FVector false VBool (VUInt 1) [2; 0; 255] 3 = [[1]; [0]; [1]] /\
  stored FVector false (VPtr 2) (VPtr 0) [0; 24] 2 = [[8;0;0;0;0;0;0;0]; [32;0;0;0;0;0;0;0]].
Proof. vm_compute. repeat split. Qed.
