(* CompareThm.v — laws of the modelled comparison operators (Proxy.v), for every
   parameter list and for arbitrary memory contents. *)
From Coq Require Import ZArith List Bool Lia.
From Cntgs Require Import Base Layout Mem MemLemmas Vector Proxy.
Import ListNotations.
Local Open Scope Z_scope.

(* ---------- strict weak orders given as boolean functions ---------- *)
Section Lex.
  Variable A : Type.
  Variable lt : A -> A -> bool.
  Definition irrefl := forall a, lt a a = false.
  Definition trans := forall a b c, lt a b = true -> lt b c = true -> lt a c = true.
  (* negative transitivity: incomparability is transitive *)
  Definition ntrans := forall a b c, lt a b = false -> lt b c = false -> lt a c = false.

  Fixpoint lexb (a b : list A) : bool :=
    match a, b with
    | _, [] => false
    | [], _ :: _ => true
    | x :: a', y :: b' => if lt x y then true else if lt y x then false else lexb a' b'
    end.

  Hypothesis Hi : irrefl.
  Hypothesis Ht : trans.
  Hypothesis Hn : ntrans.

  Lemma lt_asym a b : lt a b = true -> lt b a = false.
  Proof.
    intros H. destruct (lt b a) eqn:E; [|reflexivity].
    pose proof (Ht _ _ _ H E) as H1. rewrite Hi in H1. discriminate.
  Qed.

  Lemma lexb_irrefl : forall a, lexb a a = false.
  Proof. induction a as [|x a IH]; cbn [lexb]; [reflexivity|]. rewrite Hi. exact IH. Qed.

  Lemma lexb_trans : forall a b c, lexb a b = true -> lexb b c = true -> lexb a c = true.
  Proof.
    induction a as [|x a IH]; intros [|y b] [|z c]; cbn [lexb]; try congruence.
    destruct (lt x y) eqn:Exy.
    - intros _. destruct (lt y z) eqn:Eyz.
      + intros _. rewrite (Ht _ _ _ Exy Eyz). reflexivity.
      + destruct (lt z y) eqn:Ezy; [discriminate|]. intros _.
        (* y ~ z: x < z because otherwise x !< z, z !< y gives x !< y *)
        destruct (lt x z) eqn:Exz; [reflexivity|].
        pose proof (Hn _ _ _ Exz Ezy) as H. congruence.
    - destruct (lt y x) eqn:Eyx; [discriminate|]. intros Hab.
      destruct (lt y z) eqn:Eyz.
      + intros _. destruct (lt x z) eqn:Exz; [reflexivity|].
        pose proof (Hn _ _ _ Eyx Exz) as H. congruence.
      + destruct (lt z y) eqn:Ezy; [discriminate|]. intros Hbc.
        rewrite (Hn _ _ _ Exy Eyz), (Hn _ _ _ Ezy Eyx). eapply IH; eassumption.
  Qed.

  Lemma lexb_ntrans : forall a b c, lexb a b = false -> lexb b c = false -> lexb a c = false.
  Proof.
    induction a as [|x a IH]; intros [|y b] [|z c]; cbn [lexb]; try congruence.
    destruct (lt x y) eqn:Exy; [discriminate|].
    destruct (lt y x) eqn:Eyx.
    - intros _. destruct (lt y z) eqn:Eyz; [discriminate|].
      destruct (lt z y) eqn:Ezy.
      + intros _. rewrite (Hn _ _ _ Exy Eyz). rewrite (Ht _ _ _ Ezy Eyx). reflexivity.
      + intros _. rewrite (Hn _ _ _ Exy Eyz).
        destruct (lt z x) eqn:Ezx; [reflexivity|].
        pose proof (Hn _ _ _ Eyz Ezx) as H. congruence.
    - intros Hab. destruct (lt y z) eqn:Eyz; [discriminate|].
      destruct (lt z y) eqn:Ezy.
      + intros _. rewrite (Hn _ _ _ Exy Eyz).
        destruct (lt z x) eqn:Ezx; [reflexivity|].
        pose proof (Hn _ _ _ Ezx Exy) as H. congruence.
      + intros Hbc. rewrite (Hn _ _ _ Exy Eyz), (Hn _ _ _ Ezy Eyx). eapply IH; eassumption.
  Qed.

  Lemma lexb_asym a b : lexb a b = true -> lexb b a = false.
  Proof.
    intros H. destruct (lexb b a) eqn:E; [|reflexivity].
    pose proof (lexb_trans _ _ _ H E) as H1. rewrite lexb_irrefl in H1. discriminate.
  Qed.
End Lex.

(* ---------- the concrete orders ---------- *)
Lemma Zltb_irrefl : irrefl Z Z.ltb. Proof. intros a. apply Z.ltb_irrefl. Qed.
Lemma Zltb_trans : trans Z Z.ltb.
Proof. intros a b c. rewrite !Z.ltb_lt. lia. Qed.
Lemma Zltb_ntrans : ntrans Z Z.ltb.
Proof. intros a b c. rewrite !Z.ltb_ge. lia. Qed.

Lemma lex_lt_lexb : forall a b, lex_lt a b = lexb Z Z.ltb a b.
Proof. induction a as [|x a IH]; intros [|y b]; cbn [lex_lt lexb]; rewrite ?IH; reflexivity. Qed.

Lemma lex_lt_irrefl : irrefl _ lex_lt.
Proof. intros a. rewrite lex_lt_lexb. apply lexb_irrefl, Zltb_irrefl. Qed.
Lemma lex_lt_trans : trans _ lex_lt.
Proof.
  intros a b c. rewrite !lex_lt_lexb.
  apply lexb_trans; [apply Zltb_trans|apply Zltb_ntrans].
Qed.
Lemma lex_lt_ntrans : ntrans _ lex_lt.
Proof.
  intros a b c. rewrite !lex_lt_lexb.
  apply lexb_ntrans; [apply Zltb_trans|apply Zltb_ntrans].
Qed.

Lemma key_irrefl {A} (key : A -> Z) : irrefl A (fun a b => key a <? key b).
Proof. intros a. apply Z.ltb_irrefl. Qed.
Lemma key_trans {A} (key : A -> Z) : trans A (fun a b => key a <? key b).
Proof. intros a b c. rewrite !Z.ltb_lt. lia. Qed.
Lemma key_ntrans {A} (key : A -> Z) : ntrans A (fun a b => key a <? key b).
Proof. intros a b c. rewrite !Z.ltb_ge. lia. Qed.

Lemma obj_lt_irrefl t : irrefl _ (obj_lt t).
Proof. destruct t; first [apply (key_irrefl dec)|apply (key_irrefl sval)|apply (key_irrefl fkey)|apply lex_lt_irrefl]. Qed.
Lemma obj_lt_trans t : trans _ (obj_lt t).
Proof. destruct t; first [apply (key_trans dec)|apply (key_trans sval)|apply (key_trans fkey)|apply lex_lt_trans]. Qed.
Lemma obj_lt_ntrans t : ntrans _ (obj_lt t).
Proof. destruct t; first [apply (key_ntrans dec)|apply (key_ntrans sval)|apply (key_ntrans fkey)|apply lex_lt_ntrans]. Qed.

Lemma span_lt_lexb t : forall a b, span_lt t a b = lexb _ (obj_lt t) a b.
Proof. induction a as [|x a IH]; intros [|y b]; cbn [span_lt lexb]; rewrite ?IH; reflexivity. Qed.

Lemma span_lt_irrefl t : irrefl _ (span_lt t).
Proof. intros a. rewrite span_lt_lexb. apply lexb_irrefl, obj_lt_irrefl. Qed.
Lemma span_lt_trans t : trans _ (span_lt t).
Proof.
  intros a b c. rewrite !span_lt_lexb.
  apply lexb_trans; [apply obj_lt_trans|apply obj_lt_ntrans].
Qed.
Lemma span_lt_asym t a b : span_lt t a b = true -> span_lt t b a = false.
Proof. apply lt_asym; [apply span_lt_irrefl|apply span_lt_trans]. Qed.
Lemma lex_lt_asym a b : lex_lt a b = true -> lex_lt b a = false.
Proof. apply lt_asym; [apply lex_lt_irrefl|apply lex_lt_trans]. Qed.

(* ---------- equality of objects and spans ---------- *)
Lemma list_eqb_refl a : list_eqb a a = true.
Proof. apply list_eqb_eq. reflexivity. Qed.
Lemma list_eqb_sym a b : list_eqb a b = list_eqb b a.
Proof.
  destruct (list_eqb a b) eqn:E.
  - apply list_eqb_eq in E. subst. symmetry. apply list_eqb_refl.
  - destruct (list_eqb b a) eqn:E2; [|reflexivity].
    apply list_eqb_eq in E2. subst. rewrite list_eqb_refl in E. discriminate.
Qed.
(* the value type's ==: identity of the object representation except for floating point *)
Lemma obj_eq_refl t a : obj_eq t a a = true.
Proof. destruct t; cbn [obj_eq]; first [apply list_eqb_refl|apply Z.eqb_refl]. Qed.
Lemma obj_eq_sym t a b : obj_eq t a b = obj_eq t b a.
Proof. destruct t; cbn [obj_eq]; first [apply list_eqb_sym|apply Z.eqb_sym]. Qed.
Lemma obj_eq_eq t a b : t <> TFlt -> obj_eq t a b = true <-> a = b.
Proof. intros Ht. destruct t; cbn [obj_eq]; try apply list_eqb_eq. congruence. Qed.
(* what the model's float comparison is: IEEE == and < wherever no NaN is involved *)
Lemma ieee_agrees a b : fnan a = false -> fnan b = false ->
  ieee_eq a b = obj_eq TFlt a b /\ ieee_lt a b = obj_lt TFlt a b.
Proof. intros Ha Hb. unfold ieee_eq, ieee_lt. rewrite Ha, Hb. cbn [negb andb obj_eq obj_lt]. auto. Qed.
(* a < b implies a != b, and a == b implies neither a < b nor b < a, for floats as well *)
Lemma obj_lt_not_eq t a b : obj_lt t a b = true -> obj_eq t a b = false.
Proof.
  destruct t; cbn [obj_lt obj_eq]; intros H.
  all: try (destruct (list_eqb a b) eqn:E; [apply list_eqb_eq in E; subst b|reflexivity]).
  all: try (rewrite ?Z.ltb_irrefl in H; discriminate).
  all: try (rewrite lex_lt_irrefl in H; discriminate).
  apply Z.eqb_neq. apply Z.ltb_lt in H. lia.
Qed.

Lemma span_eq_eq t : t <> TFlt -> forall a b, span_eq t a b = true <-> a = b.
Proof.
  intros Ht. induction a as [|x a IH]; intros [|y b]; cbn [span_eq]; try (split; congruence).
  rewrite andb_true_iff, (obj_eq_eq t x y Ht), IH.
  split; [intros [-> ->]; reflexivity|intros H; inversion H; auto].
Qed.
Lemma span_eq_refl t a : span_eq t a a = true.
Proof. induction a as [|x a IH]; cbn [span_eq]; [reflexivity|]. rewrite obj_eq_refl, IH. reflexivity. Qed.
Lemma span_eq_sym t : forall a b, span_eq t a b = span_eq t b a.
Proof.
  induction a as [|x a IH]; intros [|y b]; cbn [span_eq]; try reflexivity.
  rewrite (obj_eq_sym t x y), IH. reflexivity.
Qed.

(* ---------- element level: ==, for every list and arbitrary memories ---------- *)
Lemma equal_one_refl L m fl k : equal_one L m fl m fl k = true.
Proof. unfold equal_one. destruct (nth k (runs_eq L) RSkip); [reflexivity|apply span_eq_refl|apply list_eqb_refl]. Qed.
Lemma equal_one_sym L m1 fl1 m2 fl2 k : equal_one L m1 fl1 m2 fl2 k = equal_one L m2 fl2 m1 fl1 k.
Proof. unfold equal_one. destruct (nth k (runs_eq L) RSkip); [reflexivity|apply span_eq_sym|apply list_eqb_sym]. Qed.

Lemma elem_equal_refl L m fl : elem_equal L m fl m fl = true.
Proof. unfold elem_equal. apply forallb_forall. intros k _. apply equal_one_refl. Qed.
Lemma elem_equal_sym L m1 fl1 m2 fl2 : elem_equal L m1 fl1 m2 fl2 = elem_equal L m2 fl2 m1 fl1.
Proof.
  unfold elem_equal. induction (seq 0 (length L)) as [|k ks IH]; [reflexivity|].
  cbn [forallb]. rewrite IH, equal_one_sym. reflexivity.
Qed.

(* ---------- element level: <, a strict partial order for every list ---------- *)
(* component 0 always exists: the first field is never skipped *)
Lemma upd_nth_other {A} (d : A) : forall n k x (l : list A), n <> k -> nth k (upd n x l) d = nth k l d.
Proof.
  induction n as [|n IH]; intros [|k] x [|y l] H; cbn [upd nth]; try reflexivity; try congruence.
  apply IH. congruence.
Qed.
Lemma upd_nth_same {A} (d : A) : forall n x (l : list A), (n < length l)%nat -> nth n (upd n x l) d = x.
Proof.
  induction n as [|n IH]; intros x [|y l] H; cbn [upd nth length] in *; try lia; [reflexivity|].
  apply IH. lia.
Qed.
Lemma upd_length {A} : forall n (x : A) l, length (upd n x l) = length l.
Proof. induction n as [|n IH]; intros x [|y l]; cbn [upd length]; auto. Qed.

Definition not_skip (r : ridx) : Prop := r <> RSkip.

(* once field 0 has been given an entry, later steps either leave slot 0 alone or
   overwrite it with another end index *)
Lemma runs_from_keeps0 pred bpad bspan : forall L pv i index acc,
  (0 < i)%nat -> (0 < length acc)%nat -> not_skip (nth 0 acc RSkip) ->
  not_skip (nth 0 (runs_from pred bpad bspan L pv i index acc) RSkip).
Proof.
  induction L as [|p L IH]; intros pv i index acc Hi Hl H0; cbn [runs_from]; [exact H0|].
  destruct pv as [|pt pv]; [exact H0|].
  destruct (pred p).
  - apply IH; [lia|rewrite upd_length; exact Hl|].
    set (ix := if bpad && negb (Nat.eqb i 0) && (pt <? pal p) then i else index).
    destruct (Nat.eq_dec ix 0) as [E|E].
    + rewrite E, upd_nth_same by exact Hl. discriminate.
    + rewrite upd_nth_other by exact E. exact H0.
  - apply IH; [lia|rewrite upd_length; exact Hl|].
    rewrite upd_nth_other by lia. exact H0.
Qed.

Lemma runs_first_not_skip pred bpad bspan L : L <> [] -> not_skip (nth 0 (runs pred bpad bspan L) RSkip).
Proof.
  intros HL. unfold runs. destruct L as [|p L]; [congruence|].
  unfold prevs. cbn [runs_from length repeat].
  destruct (pred p).
  - rewrite andb_false_r. cbn [andb].
    apply runs_from_keeps0; [lia|cbn [upd length]; lia|cbn [upd nth]; discriminate].
  - apply runs_from_keeps0; [lia|cbn [upd length]; lia|cbn [upd nth]; discriminate].
Qed.

Lemma less_one_irrefl0 L m fl : L <> [] -> less_one L m fl m fl 0 = false.
Proof.
  intros HL. unfold less_one. pose proof (runs_first_not_skip lxm true false L HL) as H.
  fold (runs_lex L) in H. destruct (nth 0 (runs_lex L) RSkip); [exfalso; apply H; reflexivity| |].
  - apply span_lt_irrefl.
  - apply lex_lt_irrefl.
Qed.

Lemma less_one_asym L m1 fl1 m2 fl2 k :
  nth k (runs_lex L) RSkip <> RSkip ->
  less_one L m1 fl1 m2 fl2 k = true -> less_one L m2 fl2 m1 fl1 k = false.
Proof.
  unfold less_one. destruct (nth k (runs_lex L) RSkip); [congruence| |]; intros _.
  - apply span_lt_asym.
  - apply lex_lt_asym.
Qed.

Lemma less_one_trans L m1 fl1 m2 fl2 m3 fl3 k :
  less_one L m1 fl1 m2 fl2 k = true -> less_one L m2 fl2 m3 fl3 k = true ->
  less_one L m1 fl1 m3 fl3 k = true.
Proof.
  unfold less_one. destruct (nth k (runs_lex L) RSkip); [reflexivity| |].
  - apply span_lt_trans.
  - apply lex_lt_trans.
Qed.

Lemma in_seq0 n : (0 < n)%nat -> In O (seq 0 n).
Proof. intros H. apply in_seq. lia. Qed.
Lemma in_seq0_len {A} (L : list A) : L <> [] -> In O (seq 0 (length L)).
Proof. intros H. apply in_seq0. destruct L; [congruence|cbn [length]; lia]. Qed.

Theorem elem_less_irrefl L m fl : L <> [] -> elem_less L m fl m fl = false.
Proof.
  intros HL. unfold elem_less. destruct (forallb _ _) eqn:E; [|reflexivity].
  rewrite forallb_forall in E. specialize (E O (in_seq0_len L HL)).
  rewrite less_one_irrefl0 in E by exact HL. discriminate.
Qed.

Theorem elem_less_asym L m1 fl1 m2 fl2 : L <> [] ->
  elem_less L m1 fl1 m2 fl2 = true -> elem_less L m2 fl2 m1 fl1 = false.
Proof.
  intros HL H. unfold elem_less in *. rewrite forallb_forall in H.
  destruct (forallb (less_one L m2 fl2 m1 fl1) _) eqn:E; [|reflexivity].
  rewrite forallb_forall in E.
  assert (Hin : In O (seq 0 (length L))) by (apply in_seq0_len; exact HL).
  pose proof (less_one_asym L m1 fl1 m2 fl2 O (runs_first_not_skip lxm true false L HL) (H _ Hin)) as Ha.
  rewrite (E _ Hin) in Ha. discriminate.
Qed.

Theorem elem_less_trans L m1 fl1 m2 fl2 m3 fl3 :
  elem_less L m1 fl1 m2 fl2 = true -> elem_less L m2 fl2 m3 fl3 = true ->
  elem_less L m1 fl1 m3 fl3 = true.
Proof.
  unfold elem_less. rewrite !forallb_forall. intros H1 H2 k Hk.
  eapply less_one_trans; [apply H1|apply H2]; exact Hk.
Qed.

(* ---------- the derived operators ---------- *)
Lemma six_spec eq lt gt :
  six eq lt gt = [eq; negb eq; lt; negb gt; gt; negb lt].
Proof. reflexivity. Qed.

(* ---------- vector level ---------- *)
Lemma elems_equal_refl L v : elems_equal L v v = true.
Proof.
  unfold elems_equal. rewrite Z.eqb_refl. cbn [andb].
  apply forallb_forall. intros i _. apply elem_equal_refl.
Qed.
Lemma vec_equal_refl L v : vec_equal L v v = true.
Proof.
  unfold vec_equal. destruct (_ && _ && _).
  - rewrite Z.eqb_refl. cbn [negb]. destruct (vsize L v =? 0); [reflexivity|apply list_eqb_refl].
  - apply elems_equal_refl.
Qed.

Lemma elems_equal_sym L v1 v2 : elems_equal L v1 v2 = elems_equal L v2 v1.
Proof.
  unfold elems_equal. rewrite (Z.eqb_sym (vsize L v1)).
  destruct (vsize L v2 =? vsize L v1) eqn:E; [|reflexivity].
  apply Z.eqb_eq in E. rewrite E. cbn [andb].
  induction (seq 0 (Z.to_nat (vsize L v1))) as [|k ks IH]; [reflexivity|].
  cbn [forallb]. rewrite IH. unfold ref_equal. rewrite elem_equal_sym. reflexivity.
Qed.
Lemma vec_equal_sym L v1 v2 : vec_equal L v1 v2 = vec_equal L v2 v1.
Proof.
  unfold vec_equal. rewrite (list_eqb_sym (v_fixed v1)).
  destruct (forallb eqm L && padfree L && list_eqb (v_fixed v2) (v_fixed v1)).
  - rewrite (Z.eqb_sym (vsize L v2)). destruct (vsize L v1 =? vsize L v2) eqn:E; cbn [negb]; [|reflexivity].
    apply Z.eqb_eq in E. rewrite E. destruct (vsize L v2 =? 0); [reflexivity|apply list_eqb_sym].
  - apply elems_equal_sym.
Qed.

(* vector <: irreflexive *)
Lemma elems_less_from_irrefl L v : L <> [] -> forall fuel i, elems_less_from L v v i fuel = false.
Proof.
  intros HL. induction fuel as [|f IH]; intros i; cbn [elems_less_from].
  - destruct (vsize L v <=? i) eqn:E; [|reflexivity]. cbn [andb]. apply Z.leb_le in E. apply Z.ltb_ge. exact E.
  - rewrite orb_diag. destruct (vsize L v <=? i) eqn:E.
    + cbn [andb]. apply Z.leb_le in E. apply Z.ltb_ge. exact E.
    + unfold ref_less. rewrite elem_less_irrefl by exact HL. apply IH.
Qed.
Theorem vec_less_irrefl L v : L <> [] -> vec_less L v v = false.
Proof.
  intros HL. unfold vec_less. destruct (_ && _ && _ && _).
  - destruct (vsize L v =? 0); [reflexivity|]. destruct (dend L v =? 0); [apply Z.ltb_irrefl|apply lex_lt_irrefl].
  - apply elems_less_from_irrefl. exact HL.
Qed.
