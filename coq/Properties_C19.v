(* C19 — read-only use from several threads is race-free (PARTIAL).
   Proved: for every parameter list, every state of the shared vectors, any number of
   threads, any programs made of the const operations the property names (queries, element
   access, iteration, comparison, copying the vector, constructing an element from a
   reference) and EVERY interleaving of their memory accesses: no two accesses of different
   threads conflict.  The proof rests on two facts about the footprints, which are defined
   from the model's own functions (eaddr, load, vsize, consumption): a const operation reads
   only the shared state and writes only memory its own thread obtained during the operation.
   Distinct vectors have disjoint location sets.
   Tie of the footprints to the code (checked on every run): the vector object, its data
   block and its address table are write-protected (mprotect) and the whole catalogue of
   const operations is executed, single threaded and from 4 / 16 threads; any store into the
   shared state is a SIGSEGV with the operation as replay.
   NOT exhibited by the model: compiler / hardware memory model, the allocator's own
   synchronisation (ThreadSanitizer run in the thorough tier as supporting evidence only). *)
From Coq Require Import ZArith List Bool.
From Cntgs Require Import Base Layout Mem Vector Proxy Race RaceThm.
Import ListNotations.
Local Open Scope Z_scope.

Theorem C19_const_operations_never_conflict : forall L vs progs tr,
  from_programs L vs progs tr ->
  forall x y, In x tr -> In y tr -> ~ conflict x y.
Proof. exact const_operations_never_conflict. Qed.
Print Assumptions C19_const_operations_never_conflict.

Theorem C19_reads_touch_only_shared_state : forall L vs c,
  Forall (fun l => is_priv l = false) (reads L vs c).
Proof. exact reads_shared. Qed.
Print Assumptions C19_reads_touch_only_shared_state.

Theorem C19_writes_touch_only_thread_private_memory : forall L vs tid c,
  Forall (fun l => exists k, l = LPriv tid k) (writes L vs tid c).
Proof. exact writes_private. Qed.
Print Assumptions C19_writes_touch_only_thread_private_memory.

Theorem C19_distinct_vectors_have_disjoint_locations : forall L v s,
  Forall (fun l => loc_of l = Some s) (all_reads L v s).
Proof. exact all_reads_own. Qed.
Print Assumptions C19_distinct_vectors_have_disjoint_locations.

(* non-vacuity: two threads, one copying vector 0 and one iterating it: a trace that
   stems from these programs exists and contains a write *)
Example C19_nonvacuous :
  let L := [ {| pk := Plain; psz := 4; pal := 1; pty := TUInt |} ] in
  let vs := fun _ : nat => vec0 in
  let progs := fun t : nat => if Nat.eqb t 0 then [CCopy 0] else [CIterate 0] in
  let tr := accesses L vs 1 (CIterate 0) ++ accesses L vs 0 (CCopy 0) in
  from_programs L vs progs tr /\ tr <> [].
Proof.
  cbv zeta. split.
  - intros x Hx. apply in_app_or in Hx. destruct Hx as [Hx|Hx].
    + assert (E : a_tid x = 1%nat).
      { unfold accesses in Hx. apply in_app_or in Hx. destruct Hx as [Hx|Hx]; apply in_map_iff in Hx;
        destruct Hx as (l & <- & _); reflexivity. }
      rewrite E. exists (CIterate 0). split; [left; reflexivity|exact Hx].
    + assert (E : a_tid x = 0%nat).
      { unfold accesses in Hx. apply in_app_or in Hx. destruct Hx as [Hx|Hx]; apply in_map_iff in Hx;
        destruct Hx as (l & <- & _); reflexivity. }
      rewrite E. exists (CCopy 0). split; [left; reflexivity|exact Hx].
  - vm_compute. discriminate.
Qed.
