(* C08 — allocator propagation follows std::allocator_traits. *)
From Coq Require Import ZArith List Bool.
From Cntgs Require Import Base Layout Mem Vector World Spec Rep WorldThm NtWorld.
Import ListNotations.
Local Open Scope Z_scope.

(* For every allocator kind K (all 32 combinations of the four traits and of
   select_on_container_copy_construction), every list of trivially relocatable types and
   all states: get_allocator() after copy construction is soccc(source); after copy
   assignment, move assignment and swap it is the source's exactly when the corresponding
   propagate_on_container_* trait is true.  (Each theorem also gives the value semantics
   used by C09.) *)
Theorem C08_copy_construction : forall L, wf_plist L = true -> all_triv L = true -> all_ctriv false L = true ->
  forall K src l junk nb, Rep L src l ->
  let '(d, src', evs, nb') := copy_ctor K L src junk nb in
  Rep L d l /\ src' = src /\ v_aid d = soccc K (v_aid src) /\
  v_cap d = v_cap src /\ v_fixed d = v_fixed src /\ v_bid d = Some nb.
Proof. exact copy_ctor_spec. Qed.
Print Assumptions C08_copy_construction.

Theorem C08_copy_assignment : forall L, wf_plist L = true -> all_triv L = true -> all_ctriv false L = true ->
  forall K d src l junk nb, Rep L src l ->
  let '(d', src', evs, nb') := copy_assign K L d src junk nb in
  Rep L d' l /\ src' = src /\
  v_aid d' = (if pocca K then v_aid src else v_aid d) /\
  v_cap d' = v_cap src /\ v_fixed d' = v_fixed src.
Proof. exact copy_assign_spec. Qed.
Print Assumptions C08_copy_assignment.

Theorem C08_move_assignment : forall L, wf_plist L = true -> all_triv L = true ->
  forall K d src l junk nb, Rep L src l ->
  let '(d', src', evs, nb') := move_assign K L d src junk nb in
  Rep L d' l /\
  v_aid d' = (if pocma K then v_aid src else v_aid d) /\
  (src' = moved_from src \/ src' = src).
Proof. exact move_assign_spec. Qed.
Print Assumptions C08_move_assignment.

(* unequal non-propagating allocators: the source's block is never taken; the elements go
   into the target's own block or into one newly allocated from the TARGET's allocator *)
Theorem C08_move_assignment_elementwise : forall L, all_triv L = true ->
  forall K d src junk nb,
  always_eq K = false -> pocma K = false -> v_aid d <> v_aid src ->
  let '(d', src', evs, nb') := move_assign K L d src junk nb in
  src' = src /\ v_aid d' = v_aid d /\
  (v_bid d' = v_bid d \/
   (v_bid d' = Some nb /\ In (EAlloc (v_aid d) (SA L) (consumption L src) nb) evs)).
Proof. exact move_assign_elementwise. Qed.
Print Assumptions C08_move_assignment_elementwise.

Theorem C08_swap : forall L K a b la lb, Rep L a la -> Rep L b lb ->
  Rep L (fst (swap_vec K a b)) lb /\ Rep L (snd (swap_vec K a b)) la /\
  v_aid (fst (swap_vec K a b)) = (if pocs K then v_aid b else v_aid a) /\
  v_aid (snd (swap_vec K a b)) = (if pocs K then v_aid a else v_aid b).
Proof. exact swap_spec. Qed.
Print Assumptions C08_swap.

(* ... and for EVERY well-formed parameter list, non-trivial value types included
   (NtWorld.v): the relocation through the copy / move constructors reproduces every byte in
   the target (NtRefine.insert_into_mem); a copy leaves the source record untouched; after an
   element-wise move the source keeps its block, only its memory differs (moved-from
   objects) *)
Theorem C08_copy_construction_every_list : forall L, wf_plist L = true ->
  forall K src l junk nb, Rep L src l ->
  let '(d, src', evs, nb') := copy_ctor K L src junk nb in
  Rep L d l /\ src' = src /\ v_aid d = soccc K (v_aid src) /\
  v_cap d = v_cap src /\ v_fixed d = v_fixed src /\ v_bid d = Some nb.
Proof. exact copy_ctor_spec_nt. Qed.
Print Assumptions C08_copy_construction_every_list.

Theorem C08_copy_assignment_every_list : forall L, wf_plist L = true ->
  forall K d src l junk nb, Rep L src l ->
  let '(d', src', evs, nb') := copy_assign K L d src junk nb in
  Rep L d' l /\ src' = src /\
  v_aid d' = (if pocca K then v_aid src else v_aid d) /\
  v_cap d' = v_cap src /\ v_fixed d' = v_fixed src.
Proof. exact copy_assign_spec_nt. Qed.
Print Assumptions C08_copy_assignment_every_list.

Theorem C08_move_assignment_every_list : forall L, wf_plist L = true ->
  forall K d src l junk nb, Rep L src l ->
  let '(d', src', evs, nb') := move_assign K L d src junk nb in
  Rep L d' l /\
  v_aid d' = (if pocma K then v_aid src else v_aid d) /\
  (src' = moved_from src \/ exists ms, src' = set_mem src ms).
Proof. exact move_assign_spec_nt. Qed.
Print Assumptions C08_move_assignment_every_list.
