(* C16 — no hidden reallocation: addresses are stable until capacity is exceeded. *)
From Coq Require Import ZArith List Bool Lia.
From Cntgs Require Import Base Layout Mem Vector World Spec Rep StableThm Refine NtLedger Refine NtRefine LifeHist AddrStable EmplacePos.
Import ListNotations.
Local Open Scope Z_scope.

(* emplace_back, pop_back, clear: no allocator event, same block, for EVERY parameter list *)
Theorem C16_emplace_back_no_allocation : forall L v t,
  no_alloc (snd (emplace_back L v t)) /\ v_bid (fst (emplace_back L v t)) = v_bid v /\
  v_cap (fst (emplace_back L v t)) = v_cap v.
Proof. exact emplace_back_no_alloc. Qed.
Print Assumptions C16_emplace_back_no_allocation.

Theorem C16_pop_back_no_allocation : forall L v,
  no_alloc (snd (pop_back L v)) /\ v_bid (fst (pop_back L v)) = v_bid v.
Proof. exact pop_back_no_alloc. Qed.
Print Assumptions C16_pop_back_no_allocation.

Theorem C16_clear_no_allocation : forall L v,
  no_alloc (snd (clear L v)) /\ v_bid (fst (clear L v)) = v_bid v.
Proof. exact clear_no_alloc. Qed.
Print Assumptions C16_clear_no_allocation.

(* erase: trivially relocatable lists *)
Theorem C16_erase_no_allocation : forall L v i, all_triv L = true ->
  no_alloc (snd (erase L v i)) /\ v_bid (fst (erase L v i)) = v_bid v.
Proof. exact erase_no_alloc. Qed.
Print Assumptions C16_erase_no_allocation.

Theorem C16_erase_range_no_allocation : forall L v i j, all_triv L = true ->
  no_alloc (snd (erase_range L v i j)) /\ v_bid (fst (erase_range L v i j)) = v_bid v.
Proof. exact erase_range_no_alloc. Qed.
Print Assumptions C16_erase_range_no_allocation.

(* reserve within capacity: nothing at all *)
Theorem C16_reserve_within_capacity : forall L v n b junk bid tbid,
  n <= v_cap v -> reserve L v n b junk bid tbid = (v, []).
Proof. exact reserve_noop. Qed.
Print Assumptions C16_reserve_within_capacity.

(* the elements already stored keep their addresses *)
Theorem C16_emplace_back_addresses_stable : forall L v t i, 0 <= i < vsize L v ->
  eaddr L (fst (emplace_back L v t)) i = eaddr L v i.
Proof. exact emplace_back_addresses_stable. Qed.
Print Assumptions C16_emplace_back_addresses_stable.

Theorem C16_pop_back_addresses_stable : forall L v i, all_triv L = true ->
  eaddr L (fst (pop_back L v)) i = eaddr L v i.
Proof. exact pop_back_addresses_stable. Qed.
Print Assumptions C16_pop_back_addresses_stable.

(* erase: the elements in front of the erased position stay where they are *)
Theorem C16_erase_front_addresses_stable : forall L v from to i,
  0 <= i < to -> to <= from -> (Z.to_nat to <= length (t_slots (v_tbl v)))%nat \/ has_varying L = false ->
  eaddr L (fst (move_forward_triv L v from to)) i = eaddr L v i.
Proof. exact move_forward_addresses_stable. Qed.
Print Assumptions C16_erase_front_addresses_stable.

(* swap exchanges ownership of the blocks; in the model swap and move construction are
   exchanges of records that emit no event at all *)
Theorem C16_swap_exchanges_blocks : forall K a b,
  v_bid (fst (swap_vec K a b)) = v_bid b /\ v_bid (snd (swap_vec K a b)) = v_bid a /\
  v_cap (fst (swap_vec K a b)) = v_cap b /\ v_cap (snd (swap_vec K a b)) = v_cap a.
Proof. exact swap_exchanges_blocks. Qed.
Print Assumptions C16_swap_exchanges_blocks.

(* erase and erase(first, last) never call the allocator and keep the block - for EVERY list,
   the element-by-element re-emplacement of non-trivial lists included *)
Theorem C16_erase_no_allocation_every_list : forall L v i,
  no_alloc (snd (erase L v i)) /\ v_bid (fst (erase L v i)) = v_bid v.
Proof. exact erase_no_alloc_nt. Qed.
Print Assumptions C16_erase_no_allocation_every_list.

Theorem C16_erase_range_no_allocation_every_list : forall L v i j,
  no_alloc (snd (erase_range L v i j)) /\ v_bid (fst (erase_range L v i j)) = v_bid v.
Proof. exact erase_range_no_alloc_nt. Qed.
Print Assumptions C16_erase_range_no_allocation_every_list.

(* ---------- every list: addresses are a function of the content in front ----------
   In every represented state the offset of element k is determined by the tuples in front of
   it (tight packing is part of the invariant).  So two represented states whose lists share a
   prefix hold the elements of that prefix at the same offsets from data_begin() - whatever
   happened in between: emplace_back, pop_back, erase / erase(first,last) behind them, clear and
   refill with the same values, reserve.  (That the block is not replaced by the operations
   C16 names is the no-allocation theorems above.) *)
Theorem C16_addresses_are_a_function_of_the_content : forall L v l offs k, RepO L v l offs -> (k < length l)%nat ->
  eaddr L v (Z.of_nat k) = nth k (cpos L 0 l) 0.
Proof. exact addresses_from_content. Qed.
Print Assumptions C16_addresses_are_a_function_of_the_content.

Theorem C16_common_prefix_same_addresses : forall L v l offs v' l' offs' n k,
  RepO L v l offs -> RepO L v' l' offs' -> firstn n l = firstn n l' ->
  (k < n)%nat -> (k < length l)%nat -> (k < length l')%nat ->
  eaddr L v' (Z.of_nat k) = eaddr L v (Z.of_nat k).
Proof. exact common_prefix_same_addresses. Qed.
Print Assumptions C16_common_prefix_same_addresses.

(* along histories: whatever valid continuation [ext] follows a valid history [h] (every list;
   erase with elements behind only on trivially relocatable lists), the elements of the common
   prefix of the two represented lists keep their offsets *)
Theorem C16_addresses_stable_along_histories : forall L cap budget fixed aid junk bid tbid h ext n k,
  wf_plist L = true -> 0 <= cap -> Forall (fun c => 0 <= c) fixed ->
  let v0 := fst (mkvec L cap budget fixed aid junk bid tbid) in
  let s0 := {| s_cap := cap; s_elems := [] |} in
  shist_valid L (fixed_counts L fixed) s0 h -> nt_hist_okx L s0 h ->
  shist_valid L (fixed_counts L fixed) s0 (h ++ ext) -> nt_hist_okx L s0 (h ++ ext) ->
  let l := s_elems (srun s0 h) in
  let l' := s_elems (srun s0 (h ++ ext)) in
  firstn n l = firstn n l' -> (k < n)%nat -> (k < length l)%nat -> (k < length l')%nat ->
  eaddr L (vrun L junk v0 (h ++ ext)) (Z.of_nat k) = eaddr L (vrun L junk v0 h) (Z.of_nat k).
Proof.
  intros L cap budget fixed aid junk bid tbid h ext n k Hwf Hcap Hfx. cbv zeta. intros Hv Hn Hv' Hn' Hp Hk Hl Hl'.
  destruct (rep_every_history_nt L cap budget fixed aid junk bid tbid h Hwf Hcap Hfx Hv Hn) as [offs R].
  destruct (rep_every_history_nt L cap budget fixed aid junk bid tbid (h ++ ext) Hwf Hcap Hfx Hv' Hn') as [offs' R'].
  exact (common_prefix_same_addresses L _ _ offs _ _ offs' n k R R' Hp Hk Hl Hl').
Qed.
Print Assumptions C16_addresses_stable_along_histories.

(* emplace(position, args...) within capacity (the model of it: lists without VaryingSize
   parameter, trivially relocatable types): no allocator event, same block, same capacity;
   the elements in front of the position keep their addresses because the addresses of a list
   without VaryingSize parameter are stride * index (C16_addresses_are_a_function_of_the_content) *)
Theorem C16_emplace_position_no_allocation : forall L v i t,
  no_alloc (snd (emplace_pos L v i t)) /\ v_bid (fst (emplace_pos L v i t)) = v_bid v /\
  v_cap (fst (emplace_pos L v i t)) = v_cap v.
Proof. exact emplace_pos_no_alloc. Qed.
Print Assumptions C16_emplace_position_no_allocation.

(* ... and every element in front of the position stays where it was *)
Theorem C16_emplace_position_keeps_the_elements_in_front : forall L, wf_plist L = true -> has_varying L = false ->
  forall v l offs, RepO L v l offs ->
  forall i t k, (i <= length l)%nat -> Z.of_nat (length l) < v_cap v ->
  tuple_ok L (fixed_counts L (v_fixed v)) 0 t -> (k < i)%nat ->
  eaddr L (fst (emplace_pos L v (Z.of_nat i) t)) (Z.of_nat k) = eaddr L v (Z.of_nat k).
Proof.
  intros L Hwf Hv v l offs R i t k Hi Hcap Ht Hk.
  destruct (emplace_pos_rep L Hwf Hv v l offs R i t Hi Hcap Ht) as ([offs' R'] & _ & _).
  apply (common_prefix_same_addresses L v l offs _ (linsert i t l) offs' i k R R'); try lia.
  - unfold linsert. rewrite firstn_app, firstn_firstn, Nat.min_id, firstn_length.
    replace (i - Init.Nat.min i (length l))%nat with 0%nat by lia. cbn [firstn]. rewrite app_nil_r. reflexivity.
  - rewrite linsert_length by exact Hi. lia.
Qed.
Print Assumptions C16_emplace_position_keeps_the_elements_in_front.

(* erase(first, first) - the empty range, anywhere - does nothing at all: no event (no
   construction, destruction or allocator call), the very same vector (every list) *)
Theorem C16_erase_of_an_empty_range_does_nothing : forall L v i, erase_range L v i i = (v, []).
Proof. exact erase_empty_range_identity. Qed.
Print Assumptions C16_erase_of_an_empty_range_does_nothing.
