(* Ordered.v — lemmas about [elems_ordered]: elements at increasing, storage-aligned,
   pairwise disjoint offsets. *)
From Coq Require Import ZArith Lia List Bool.
From Cntgs Require Import Base BaseLemmas Layout LayoutThm Mem MemLemmas Vector Spec Rep ElemLemmas.
Import ListNotations.
Local Open Scope Z_scope.

Lemma Forall2_impl_ {A B} (P Q : A -> B -> Prop) l1 l2 :
  (forall a b, P a b -> Q a b) -> Forall2 P l1 l2 -> Forall2 Q l1 l2.
Proof. intros H. induction 1; constructor; auto. Qed.

Section Ordered.
  Variable L : list param.
  Variable fc : list Z.
  Hypothesis Hwf : wf_plist L = true.

  Let HF : Forall wfp L := wf_plist_Forall L Hwf.

  Lemma elem_end_ge a t : a <= elem_end L a t.
  Proof. unfold elem_end, place. apply place_from_end_ge; auto. apply cnts_of_nonneg. Qed.

  Lemma elem_end_shift a t d : (SA L | d) -> elem_end L (a + d) t = elem_end L a t + d.
  Proof. intros Hd. unfold elem_end. apply place_shift_snd; auto. Qed.

  (* end of the last element, or [lo] when there is none *)
  Fixpoint eo_end (lo : Z) (offs : list Z) (l : list tuple) : Z :=
    match offs, l with
    | a :: offs', t :: l' => eo_end (elem_end L a t) offs' l'
    | _, _ => lo
    end.

  Lemma eo_length lo offs l hi : elems_ordered L lo offs l hi -> length offs = length l.
  Proof.
    revert lo l. induction offs as [|a offs IH]; intros lo [|t l] H; cbn in *; try contradiction; auto.
    destruct H as (_ & _ & H). f_equal. eapply IH; eauto.
  Qed.

  Lemma eo_end_le lo offs l hi : elems_ordered L lo offs l hi -> lo <= eo_end lo offs l <= hi.
  Proof.
    revert lo l. induction offs as [|a offs IH]; intros lo [|t l] H; cbn in *; try contradiction; [lia|].
    destruct H as (H1 & H2 & H). specialize (IH _ _ H). pose proof (elem_end_ge a t). lia.
  Qed.

  Lemma eo_weaken_hi lo offs l hi hi' : elems_ordered L lo offs l hi -> hi <= hi' -> elems_ordered L lo offs l hi'.
  Proof.
    revert lo l. induction offs as [|a offs IH]; intros lo [|t l] H Hh; cbn in *; try contradiction; [lia|].
    destruct H as (H1 & H2 & H). repeat split; auto; try (eapply IH; eauto).
  Qed.

  Lemma eo_weaken_lo lo lo' offs l hi : elems_ordered L lo offs l hi -> lo' <= lo -> elems_ordered L lo' offs l hi.
  Proof.
    destruct offs as [|a offs]; destruct l as [|t l]; cbn; try contradiction; [lia|].
    intros (H1 & H2 & H) Hl. repeat split; auto. lia.
  Qed.

  Lemma eo_tight lo offs l hi : elems_ordered L lo offs l hi -> elems_ordered L lo offs l (eo_end lo offs l).
  Proof.
    revert lo l. induction offs as [|a offs IH]; intros lo [|t l] H; cbn in *; try contradiction; [lia|].
    destruct H as (H1 & H2 & H). repeat split; auto.
  Qed.

  Lemma eo_app lo o1 l1 o2 l2 hi : length o1 = length l1 ->
    elems_ordered L lo (o1 ++ o2) (l1 ++ l2) hi <->
    elems_ordered L lo o1 l1 (eo_end lo o1 l1) /\ elems_ordered L (eo_end lo o1 l1) o2 l2 hi.
  Proof.
    revert lo l1. induction o1 as [|a o1 IH]; intros lo [|t l1] Hl; cbn in Hl; try discriminate.
    - cbn. split; [intros H; split; [lia|exact H]|intros [_ H]; exact H].
    - cbn [app elems_ordered eo_end]. injection Hl as Hl. rewrite (IH (elem_end L a t) l1 Hl). tauto.
  Qed.

  Lemma eo_end_app lo o1 l1 o2 l2 : length o1 = length l1 ->
    eo_end lo (o1 ++ o2) (l1 ++ l2) = eo_end (eo_end lo o1 l1) o2 l2.
  Proof.
    revert lo l1. induction o1 as [|a o1 IH]; intros lo [|t l1] Hl; cbn in Hl; try discriminate; [reflexivity|].
    cbn [app eo_end]. injection Hl as Hl. apply IH; auto.
  Qed.

  (* every element lies inside [lo, hi) and starts at a storage-aligned offset *)
  Lemma eo_bounds lo offs l hi : elems_ordered L lo offs l hi ->
    Forall2 (fun a t => lo <= a /\ (SA L | a) /\ elem_end L a t <= hi) offs l.
  Proof.
    revert lo l. induction offs as [|a offs IH]; intros lo [|t l] H; cbn in *; try contradiction; [constructor|].
    destruct H as (H1 & H2 & H). pose proof (eo_end_le _ _ _ _ H) as Hle. constructor.
    - repeat split; auto. lia.
    - specialize (IH _ _ H). eapply Forall2_impl_; [|exact IH]. cbn. intros x y (A & B & C).
      pose proof (elem_end_ge a t). repeat split; auto. lia.
  Qed.

  Lemma eo_shift lo offs l hi d : (SA L | d) -> elems_ordered L lo offs l hi ->
    elems_ordered L (lo + d) (map (fun x => x + d) offs) l (hi + d).
  Proof.
    intros Hd. revert lo l. induction offs as [|a offs IH]; intros lo [|t l] H; cbn in *; try contradiction; [lia|].
    destruct H as (H1 & H2 & H). repeat split; [lia|apply Z.divide_add_r; auto|].
    rewrite elem_end_shift by auto. apply IH. exact H.
  Qed.

  Lemma eo_end_shift lo offs l d : (SA L | d) -> length offs = length l ->
    eo_end (lo + d) (map (fun x => x + d) offs) l = eo_end lo offs l + d.
  Proof.
    intros Hd. revert lo l. induction offs as [|a offs IH]; intros lo [|t l] Hl; cbn in *; try discriminate; [reflexivity|].
    rewrite elem_end_shift by auto. apply IH. lia.
  Qed.

  Lemma eo_snoc lo offs l hi a t : elems_ordered L lo offs l hi -> hi <= a -> (SA L | a) ->
    elems_ordered L lo (offs ++ [a]) (l ++ [t]) (elem_end L a t).
  Proof.
    intros H Hh Hd. apply eo_app; [eapply eo_length; eauto|]. split; [eapply eo_tight; eauto|].
    cbn. pose proof (eo_end_le _ _ _ _ H). repeat split; auto; lia.
  Qed.

  Lemma eo_firstn n lo offs l hi : elems_ordered L lo offs l hi ->
    elems_ordered L lo (firstn n offs) (firstn n l) (eo_end lo (firstn n offs) (firstn n l)).
  Proof.
    intros H. pose proof (eo_length _ _ _ _ H) as Hl.
    rewrite <- (firstn_skipn n offs), <- (firstn_skipn n l) in H.
    apply eo_app in H; [tauto|]. rewrite !firstn_length. lia.
  Qed.

  Lemma eo_skipn n lo offs l hi : elems_ordered L lo offs l hi ->
    elems_ordered L (eo_end lo (firstn n offs) (firstn n l)) (skipn n offs) (skipn n l) hi.
  Proof.
    intros H. pose proof (eo_length _ _ _ _ H) as Hl.
    rewrite <- (firstn_skipn n offs), <- (firstn_skipn n l) in H.
    apply eo_app in H; [tauto|]. rewrite !firstn_length. lia.
  Qed.

  (* the start of element n bounds the end of the elements before it *)
  Lemma eo_end_firstn_le n lo offs l hi : elems_ordered L lo offs l hi -> (n < length offs)%nat ->
    eo_end lo (firstn n offs) (firstn n l) <= nth n offs 0 /\ (SA L | nth n offs 0).
  Proof.
    intros H Hn. pose proof (eo_skipn n _ _ _ _ H) as Hs. pose proof (eo_length _ _ _ _ H) as Hl.
    destruct (skipn n offs) as [|a r] eqn:Ea.
    - apply (f_equal (@length Z)) in Ea. rewrite skipn_length in Ea. cbn in Ea. lia.
    - destruct (skipn n l) as [|t r']; [cbn in Hs; contradiction|]. cbn in Hs.
      assert (nth n offs 0 = a).
      { rewrite <- (firstn_skipn n offs) at 1. rewrite Ea, app_nth2 by (rewrite firstn_length; lia).
        rewrite firstn_length, Nat.min_l by lia. now rewrite Nat.sub_diag. }
      subst a. tauto.
  Qed.

  (* ---------- tight packing ---------- *)
  Lemma et_length lo offs l hi : elems_tight L lo offs l hi -> length offs = length l.
  Proof.
    revert lo l. induction offs as [|a offs IH]; intros lo [|t l] H; cbn [elems_tight elems_ordered nth firstn skipn eo_end length app map] in *; try contradiction; auto.
    destruct H as (_ & H). f_equal. eapply IH; eauto.
  Qed.

  (* the next element goes to first_align of the current end of data *)
  Lemma et_snoc lo offs l hi a t : elems_tight L lo offs l hi -> a = first_align L hi ->
    first_align L (first_align L (eo_end lo offs l)) = first_align L (eo_end lo offs l) ->
    elems_tight L lo (offs ++ [a]) (l ++ [t]) (elem_end L a t).
  Proof.
    revert lo l. induction offs as [|b offs IH]; intros lo [|u l] H Ha Hid; cbn [elems_tight elems_ordered nth firstn skipn eo_end length app map] in *; try contradiction.
    - split; [|left; reflexivity]. destruct H as [->| ->]; [exact Ha|]. rewrite Ha. exact Hid.
    - destruct H as (H1 & H). split; [exact H1|]. apply IH; auto.
  Qed.

  Lemma et_nth n lo offs l hi : elems_tight L lo offs l hi -> (n < length offs)%nat ->
    nth n offs 0 = first_align L (eo_end lo (firstn n offs) (firstn n l)).
  Proof.
    revert lo offs l. induction n as [|n IH]; intros lo [|a offs] [|t l] H Hn; cbn [elems_tight elems_ordered nth firstn skipn eo_end length app map] in *; try contradiction; try lia.
    destruct H as (_ & H). apply IH; auto. lia.
  Qed.

  Lemma et_firstn n lo offs l hi : elems_tight L lo offs l hi -> (n < length offs)%nat ->
    elems_tight L lo (firstn n offs) (firstn n l) (nth n offs 0).
  Proof.
    revert lo offs l. induction n as [|n IH]; intros lo [|a offs] [|t l] H Hn; cbn [elems_tight elems_ordered nth firstn skipn eo_end length app map] in *; try contradiction; try lia.
    destruct H as (H1 & H). split; [exact H1|]. apply IH; auto. lia.
  Qed.

  Lemma et_skipn n lo offs l hi : elems_tight L lo offs l hi ->
    elems_tight L (eo_end lo (firstn n offs) (firstn n l)) (skipn n offs) (skipn n l) hi.
  Proof.
    revert lo offs l. induction n as [|n IH]; intros lo offs l H; [exact H|].
    destruct offs as [|a offs]; destruct l as [|t l]; cbn [elems_tight elems_ordered nth firstn skipn eo_end length app map] in *; try contradiction; [exact H|].
    destruct H as (_ & H). apply IH. exact H.
  Qed.

  Lemma et_change_lo lo lo' a offs t l hi :
    elems_tight L lo (a :: offs) (t :: l) hi -> a = first_align L lo' -> elems_tight L lo' (a :: offs) (t :: l) hi.
  Proof. cbn. tauto. Qed.

  Lemma et_shift lo offs l hi d : (SA L | d) -> elems_tight L lo offs l hi ->
    elems_tight L (lo + d) (map (fun x => x + d) offs) l (hi + d).
  Proof.
    intros Hd. revert lo l. induction offs as [|a offs IH]; intros lo [|t l] H; cbn [elems_tight elems_ordered nth firstn skipn eo_end length app map] in *; try contradiction.
    - rewrite first_align_shift by auto. lia.
    - destruct H as (H1 & H). split; [rewrite first_align_shift by auto; lia|].
      rewrite elem_end_shift by auto. apply IH. exact H.
  Qed.

  Lemma et_set_hi lo offs l hi hi' : elems_tight L lo offs l hi ->
    hi' = eo_end lo offs l \/ hi' = first_align L (eo_end lo offs l) -> elems_tight L lo offs l hi'.
  Proof.
    revert lo l. induction offs as [|a offs IH]; intros lo [|t l] H Hh; cbn [elems_tight eo_end] in *; try contradiction.
    - exact Hh.
    - destruct H as (H1 & H). split; [exact H1|]. apply IH; auto.
  Qed.

  Lemma eo_end_snoc lo offs l a t : length offs = length l ->
    eo_end lo (offs ++ [a]) (l ++ [t]) = elem_end L a t.
  Proof. intros Hl. rewrite eo_end_app by auto. reflexivity. Qed.

  (* a non-empty tight chain behind a tight chain *)
  Lemma et_app lo o1 l1 h1 a o2 t l2 hi : elems_tight L lo o1 l1 h1 ->
    elems_tight L (eo_end lo o1 l1) (a :: o2) (t :: l2) hi ->
    elems_tight L lo (o1 ++ a :: o2) (l1 ++ t :: l2) hi.
  Proof.
    revert lo l1. induction o1 as [|b o1 IH]; intros lo [|u l1] H1 H2; cbn [app] in *; try (cbn [elems_tight] in H1; contradiction).
    - exact H2.
    - cbn [elems_tight eo_end] in *. destruct H1 as (E & H1). split; [exact E|]. apply IH; auto.
  Qed.

  (* the aligned address behind the data is storage-aligned, and aligning it again changes
     nothing *)
  Lemma eo_end_first_align lo offs l hi :
    elems_ordered L lo offs l hi -> Forall (fun t => Forall2 cnt_ok L (cnts_of t)) l ->
    0 <= lo -> (SA L | first_align L lo) ->
    (SA L | first_align L (eo_end lo offs l)).
  Proof.
    revert lo l. induction offs as [|a offs IH]; intros lo [|t l] H Ht Hlo0 Hlo; cbn [elems_tight elems_ordered nth firstn skipn eo_end length app map] in *; try contradiction; [exact Hlo|].
    destruct H as (H1 & H2 & H). inversion Ht; subst. pose proof (elem_end_ge a t).
    eapply IH; eauto; [lia|]. apply first_align_end; auto. lia.
  Qed.

  Lemma first_align_idem x : (SA L | first_align L x) -> first_align L (first_align L x) = first_align L x.
  Proof. intros H. apply first_align_aligned; auto. Qed.
End Ordered.
