(* World.v — several vectors with allocators: special member functions of
   BasicContiguousVector (vector.hpp:127-151, 291-297, 471-538) on top of Vector.v,
   scripts and observations.  Definitions only. *)
From Coq Require Import ZArith List Bool.
From Cntgs Require Import Base Layout Mem Vector Proxy Elem Construct.
Import ListNotations.
Local Open Scope Z_scope.

(* allocator kind: the std::allocator_traits members the library dispatches on *)
Record akind := {
  pocca : bool;       (* propagate_on_container_copy_assignment *)
  pocma : bool;       (* propagate_on_container_move_assignment *)
  pocs : bool;        (* propagate_on_container_swap *)
  always_eq : bool;   (* is_always_equal *)
  soccc_bump : bool   (* select_on_container_copy_construction returns identity + 100 *)
}.
Definition soccc (K : akind) (a : Z) : Z := if soccc_bump K then a + 100 else a.
Definition alloc_eq (K : akind) (a b : Z) : bool := always_eq K || (a =? b).

Inductive op :=
| OpMkVec (s : nat) (cap budget : Z) (fixed : list Z) (aid : Z)
| OpDefault (s : nat)
| OpEmplace (s : nat) (vals : list (list (list Z)))
| OpPopBack (s : nat)
| OpErase (s : nat) (i : Z)
| OpEmplaceAt (s : nat) (i : Z) (vals : list (list (list Z)))
| OpEraseRange (s : nat) (i j : Z)
| OpClear (s : nat)
| OpReserve (s : nat) (n b : Z)
| OpDestroy (s : nat)
| OpCopyCtor (d s : nat)
| OpCopyAssign (d s : nat)
| OpMoveCtor (d s : nat)
| OpMoveAssign (d s : nat)
| OpSwap (a b : nat)
| OpJunk (b : Z)
| OpFailAt (k : nat)                   (* the (k+1)-th allocation from now on throws *)
| OpRefAssign (d : nat) (i : Z) (s : nat) (j : Z) (mv : bool)   (* d[i] = s[j] (copy / move) *)
| OpRefSwap (a : nat) (i : Z) (b : nat) (j : Z)                 (* swap(a[i], b[j]) *)
| OpWrite (s : nat) (i : Z) (k : nat) (o : Z) (bs : list Z)     (* object o of field k of s[i] := bytes *)
| OpAlgo (kind : nat) (s : nat) (a b c : Z) (s2 : nat)          (* 0 rotate, 1 reverse, 2 swap_ranges *)
| OpIter (s : nat) (i j : Z)                                    (* iterator expressions *)
| OpEFromRef (e s : nat) (i : Z) (mv : bool) (aid : Z)      (* value_type{vec[i]} (copy / move), allocator aid *)
| OpECopy (d s : nat)
| OpECopyAlloc (d s : nat) (aid : Z)
| OpEMove (d s : nat)
| OpEMoveAlloc (d s : nat) (aid : Z)
| OpECopyAssign (d s : nat)
| OpEMoveAssign (d s : nat)
| OpESwap (a b : nat)
| OpEAssignRef (e s : nat) (i : Z) (mv : bool)              (* element = vec[i] *)
| OpRefAssignE (s : nat) (i : Z) (e : nat) (mv : bool)      (* vec[i] = element *)
| OpEDestroy (e : nat)
| OpEObserve (e : nat)
| OpECmpE (a b : nat)
| OpECmpR (e s : nat) (i : Z)                               (* element vs reference, both ways round *)
| OpCase (tc uc fc : nat) (rv : bool) (n : nat) (src : list Z)   (* emplace_back of one FixedSize/VaryingSize field from a source form *)
| OpNop                                (* page mode / protect / unprotect: no effect on the library *)
| OpConstOps (s t : nat)               (* the catalogue of const operations on s (compared with t) *)
| OpThreads (s t n : nat)              (* the same from n threads *)
| OpEByte (s : nat) (i : Z)            (* a BasicContiguousElement over an allocator of std::byte (the alias
                                         cntgs::ContiguousElement) deep-copies element i of vector s *)
| OpCmpVec (a b : nat)                 (* all six operators between two vectors *)
| OpCmpRef (a : nat) (i : Z) (b : nat) (j : Z)   (* ... between element references a[i], b[j] *)
| OpObserve (s : nat).

(* what one element looks like from outside: its offset and, per field, the field's
   offset and objects *)
Definition oelem := (Z * list (Z * list (list Z)))%type.

Inductive obs :=
| OStep (n : nat)                                  (* start of step n *)
| OEv (e : ev)
| ORes (r : Z)                                     (* returned index / boolean *)
| OCmp (r : list bool)                             (* == != < <= > >= *)
| OIter (r : list Z)
| OCase (stored : list (list Z)) (moved : list Z)
| OThreads (n : nat)
| OEByte (ok : bool) (bytes : Z)     (* size of the block the byte-allocator element requested, in bytes *)
| OElem (e : nat) (aid : Z) (bid : nat) (units : Z) (fields : list (Z * list (list Z)))
| OENull (e : nat)
| OEGone (e : nat)
| OAFail (aid unit n : Z)                          (* allocate(n) of allocator aid threw *)
| OThrow
| ONull (s : nat) (size : Z)                       (* vector without memory: size() only *)
| OVec (s : nat) (size cap consumption aid : Z) (bid : nat) (dbeg dend : Z) (fixed : list Z)
       (elems : list oelem)
| OGone (s : nat).

Record world := {
  w_vecs : list (option vec);
  w_elems : list (option elem);
  w_nb : nat;          (* next block id *)
  w_junk : Z;
  w_fail : option nat; (* Some k: the (k+1)-th allocation from now on throws *)
  w_out : list obs     (* reversed *)
}.

Definition getv (w : world) (s : nat) : vec :=
  match nth s (w_vecs w) None with Some v => v | None => vec0 end.
Definition hasv (w : world) (s : nat) : bool :=
  match nth s (w_vecs w) None with Some _ => true | None => false end.
Definition setv (w : world) (s : nat) (v : option vec) (evs : list ev) (nb : nat) : world :=
  {| w_vecs := upd s v (w_vecs w); w_elems := w_elems w; w_nb := nb; w_junk := w_junk w; w_fail := w_fail w;
     w_out := rev (map OEv evs) ++ w_out w |}.
Definition emit (w : world) (o : list obs) : world :=
  {| w_vecs := w_vecs w; w_elems := w_elems w; w_nb := w_nb w; w_junk := w_junk w; w_fail := w_fail w;
     w_out := rev o ++ w_out w |}.
Definition set_junk (w : world) (b : Z) : world :=
  {| w_vecs := w_vecs w; w_elems := w_elems w; w_nb := w_nb w; w_junk := b; w_fail := w_fail w; w_out := w_out w |}.

Definition elem0 : elem := {| e_bid := None; e_units := 0; e_aid := 0; e_mem := mfill 0; e_fl := [] |}.
Definition gete (w : world) (s : nat) : elem :=
  match nth s (w_elems w) None with Some e => e | None => elem0 end.
Definition sete (w : world) (s : nat) (e : option elem) (evs : list ev) (nb : nat) : world :=
  {| w_vecs := w_vecs w; w_elems := upd s e (w_elems w); w_nb := nb; w_junk := w_junk w; w_fail := w_fail w;
     w_out := rev (map OEv evs) ++ w_out w |}.
Definition obs_el (L : list param) (s : nat) (w : world) : obs :=
  match nth s (w_elems w) None with
  | None => OEGone s
  | Some e =>
      match e_bid e with
      | None => OENull s
      | Some b => OElem s (e_aid e) b (e_units e)
                    (map (fun pa => (fst (snd pa), read_objs (e_mem e) (fst pa) (snd pa))) (combine L (e_fl e)))
      end
  end.

Definition obs_elem (L : list param) (v : vec) (i : Z) : oelem :=
  let a := eaddr L v i in
  let fl := fst (load L (v_fixed v) (v_mem v) a) in
  (a, map (fun pa => (fst (snd pa), read_objs (v_mem v) (fst pa) (snd pa))) (combine L fl)).

Definition obs_vec (L : list param) (s : nat) (w : world) : obs :=
  match nth s (w_vecs w) None with
  | None => OGone s
  | Some v =>
      match v_bid v with
      | None => ONull s (vsize L v)
      | Some b =>
          let n := vsize L v in
          OVec s n (v_cap v) (consumption L v) (v_aid v) b 0 (dend L v) (v_fixed v)
               (map (fun i => obs_elem L v (Z.of_nat i)) (seq 0 (Z.to_nat n)))
      end
  end.

(* a default-constructed vector: no memory, value-initialised members *)
Definition vec_default (L : list param) : vec :=
  {| v_cap := 0; v_bid := None; v_units := 0; v_aid := 0; v_mem := mfill 0;
     v_fixed := map (fun _ => 0) (filter is_fixed L);
     v_count := 0; v_stride := snd (esize L (map (fun _ => 0) (filter is_fixed L)));
     v_tbl := tbl0; v_last := 0 |}.

(* the moved-from state (defaulted member-wise move of max_element_count_, the owning
   pointer (allocator.hpp:88-91,154) and the locator) *)
Definition moved_from (v : vec) : vec :=
  {| v_cap := v_cap v; v_bid := None; v_units := 0; v_aid := v_aid v; v_mem := v_mem v;
     v_fixed := v_fixed v; v_count := 0; v_stride := v_stride v; v_tbl := tbl0; v_last := v_last v |}.

(* copy construction (vector.hpp:127-130, 521-527; allocator.hpp:82-86) *)
Definition copy_ctor (K : akind) (L : list param) (src : vec) (junk : mem) (nb : nat) : vec * vec * list ev * nat :=
  let a := soccc K (v_aid src) in
  let tab := has_varying L in
  let bid := nb in let tbid := S nb in
  let ea := EAlloc a (SA L) (v_units src) bid :: (if tab then [EAlloc a 8 (v_cap src) tbid] else []) in
  let '(src1, m, e1) := insert_into false false L src bid junk in
  ({| v_cap := v_cap src; v_bid := Some bid; v_units := v_units src; v_aid := a; v_mem := m;
      v_fixed := v_fixed src; v_count := v_count src; v_stride := v_stride src;
      v_tbl := if tab then tbl_relocate (v_tbl src) (v_cap src) tbid else tbl0;
      v_last := v_last src |}, src1, ea ++ e1, if tab then S (S nb) else S nb).

(* copy_assign (vector.hpp): the new block and the new address table are allocated FIRST
   (from the allocator the vector will have afterwards), filled from the source, and only then
   are the old elements destroyed and the old table and block released *)
Definition copy_assign (K : akind) (L : list param) (d src : vec) (junk : mem) (nb : nat)
  : vec * vec * list ev * nat :=
  let tab := has_varying L in
  let a := if pocca K then v_aid src else v_aid d in
  let bid := nb in let tbid := S nb in
  let ea := EAlloc a (SA L) (v_units src) bid :: (if tab then [EAlloc a 8 (v_cap src) tbid] else []) in
  let '(src1, m, e1) := insert_into false false L src bid junk in
  let '(d1, e2) := if all_dtriv L then (d, []) else destruct_range L d 0 (Z.to_nat (vsize L d)) in
  let e3 := (if tab then dealloc_tbl L d1 else []) ++ dealloc_mem L d1 in
  ({| v_cap := v_cap src; v_bid := Some bid; v_units := v_units src; v_aid := a; v_mem := m;
      v_fixed := v_fixed src; v_count := v_count src; v_stride := v_stride src;
      v_tbl := if tab then tbl_relocate (v_tbl src) (v_cap src) tbid else tbl0;
      v_last := v_last src |}, src1, ea ++ e1 ++ e2 ++ e3, if tab then S (S nb) else S nb).

(* steal (vector.hpp:471-477) with the owning pointer's move assignment (allocator.hpp:128-138) *)
Definition steal (K : akind) (L : list param) (d src : vec) : vec * vec * list ev :=
  let '(d1, e1) := if all_dtriv L then (d, []) else destruct_range L d 0 (Z.to_nat (vsize L d)) in
  let e2 := (if has_varying L then dealloc_tbl L d1 else []) ++ dealloc_mem L d1 in
  ({| v_cap := v_cap src; v_bid := v_bid src; v_units := v_units src;
      v_aid := if pocma K then v_aid src else v_aid d; v_mem := v_mem src;
      v_fixed := v_fixed src; v_count := v_count src; v_stride := v_stride src;
      v_tbl := v_tbl src; v_last := v_last src |}, moved_from src, e1 ++ e2).

(* move_assign (vector.hpp:479-519) *)
Definition move_assign (K : akind) (L : list param) (d src : vec) (junk : mem) (nb : nat)
  : vec * vec * list ev * nat :=
  if always_eq K || pocma K || (v_aid d =? v_aid src) then
    let '(d1, s1, e) := steal K L d src in (d1, s1, e, nb)
  else
    let tab := has_varying L in
    if consumption L d <? consumption L src then
      let bid := nb in let tbid := S nb in
      (* known finding (C05): memory_consumption() BYTES are passed where storage UNITS are
         expected (vector.hpp:497), so the new block is SA times larger than the source's *)
      let nu := consumption L src in
      let ea := EAlloc (v_aid d) (SA L) nu bid ::
                (if tab then [EAlloc (v_aid d) 8 (v_cap src) tbid] else []) in
      let '(d1, e1) := if all_dtriv L then (d, []) else destruct_range L d 0 (Z.to_nat (vsize L d)) in
      let '(src1, m, e2) := insert_into true false L src bid junk in
      ({| v_cap := v_cap src; v_bid := Some bid; v_units := nu; v_aid := v_aid d; v_mem := m;
          v_fixed := v_fixed src; v_count := v_count src; v_stride := v_stride src;
          v_tbl := if tab then tbl_relocate (v_tbl src) (v_cap src) tbid else tbl0;
          v_last := v_last src |}, src1,
       ea ++ e1 ++ e2 ++ dealloc_mem L d1 ++ (if tab then dealloc_tbl L d1 else []),
       if tab then S (S nb) else S nb)
    else
      let tbid := nb in
      let ea := if tab then [EAlloc (v_aid d) 8 (v_cap src) tbid] else [] in
      let '(d1, e1) := if all_dtriv L then (d, []) else destruct_range L d 0 (Z.to_nat (vsize L d)) in
      let '(src1, m, e2) := insert_into true false L src (bidn (v_bid d1)) (v_mem d1) in
      ({| v_cap := v_cap src; v_bid := v_bid d1; v_units := v_units d1; v_aid := v_aid d; v_mem := m;
          v_fixed := v_fixed src; v_count := v_count src; v_stride := v_stride src;
          v_tbl := if tab then tbl_relocate (v_tbl src) (v_cap src) tbid else tbl0;
          v_last := v_last src |}, src1,
       ea ++ e1 ++ e2 ++ (if tab then dealloc_tbl L d1 else []),
       if tab then S nb else nb).

(* swap (vector.hpp:291-297; allocator.hpp:180-191) *)
Definition swap_vec (K : akind) (a b : vec) : vec * vec :=
  let mk (x y : vec) :=   (* x's allocator slot with y's contents *)
    {| v_cap := v_cap y; v_bid := v_bid y; v_units := v_units y;
       v_aid := if pocs K then v_aid y else v_aid x; v_mem := v_mem y;
       v_fixed := v_fixed y; v_count := v_count y; v_stride := v_stride y;
       v_tbl := v_tbl y; v_last := v_last y |} in
  (mk a b, mk b a).

(* a sequence of reference swaps between two vectors (or within one) *)
Fixpoint swaps (L : list param) (same : bool) (va vb : vec) (pairs : list (Z * Z)) : vec * vec :=
  match pairs with
  | [] => (va, vb)
  | (i, j) :: r =>
      let '(va1, vb1, _) := ref_swap L same va i vb j in
      swaps L same va1 (if same then va1 else vb1) r
  end.
(* std::reverse(begin + a, begin + c): iter_swap of the outermost pairs *)
Definition rev_pairs (a c : Z) : list (Z * Z) :=
  map (fun t => (a + Z.of_nat t, c - 1 - Z.of_nat t)) (seq 0 (Z.to_nat ((c - a) / 2))).
Definition range_pairs (a b c : Z) : list (Z * Z) :=
  map (fun t => (a + Z.of_nat t, c + Z.of_nat t)) (seq 0 (Z.to_nat (b - a))).

Definition step (K : akind) (L : list param) (w : world) (o : op) : world :=
  let junk := mfill (w_junk w) in
  let nb := w_nb w in
  match o with
  | OpMkVec s cap budget fixed aid =>
      let '(v, e) := mkvec L cap budget fixed aid junk nb (S nb) in
      let w1 := setv w s (Some v) e (if has_varying L then S (S nb) else S nb) in
      emit w1 [obs_vec L s w1]
  | OpDefault s =>
      let w1 := setv w s (Some (vec_default L)) [] nb in emit w1 [obs_vec L s w1]
  | OpEmplace s vals =>
      let '(v, e) := emplace_back L (getv w s) vals in
      let w1 := setv w s (Some v) e nb in emit w1 [obs_vec L s w1]
  | OpPopBack s =>
      let '(v, e) := pop_back L (getv w s) in
      let w1 := setv w s (Some v) e nb in emit w1 [obs_vec L s w1]
  | OpEmplaceAt s i vals =>
      let '(v, e) := emplace_pos L (getv w s) i vals in
      let w1 := setv w s (Some v) e nb in emit w1 [ORes i; obs_vec L s w1]
  | OpErase s i =>
      let '(v, e) := erase L (getv w s) i in
      let w1 := setv w s (Some v) e nb in emit w1 [ORes i; obs_vec L s w1]
  | OpEraseRange s i j =>
      let '(v, e) := erase_range L (getv w s) i j in
      let w1 := setv w s (Some v) e nb in emit w1 [ORes i; obs_vec L s w1]
  | OpClear s =>
      let '(v, e) := clear L (getv w s) in
      let w1 := setv w s (Some v) e nb in emit w1 [obs_vec L s w1]
  | OpReserve s n b =>
      let v0 := getv w s in
      let '(v, e) := reserve L v0 n b junk nb (S nb) in
      let nb' := if v_cap v0 <? n then (if has_varying L then S (S nb) else S nb) else nb in
      let w1 := setv w s (Some v) e nb' in emit w1 [obs_vec L s w1]
  | OpDestroy s =>
      let e := destroy L (getv w s) in
      let w1 := setv w s None e nb in emit w1 [obs_vec L s w1]
  | OpCopyCtor d s =>
      let '(v, s1, e, nb') := copy_ctor K L (getv w s) junk nb in
      let w1 := setv (setv w s (Some s1) [] nb) d (Some v) e nb' in
      emit w1 [obs_vec L d w1; obs_vec L s w1]
  | OpCopyAssign d s =>
      if Nat.eqb d s then emit w [obs_vec L d w]
      else
        let '(v, s1, e, nb') := copy_assign K L (getv w d) (getv w s) junk nb in
        let w1 := setv (setv w s (Some s1) [] nb) d (Some v) e nb' in
        emit w1 [obs_vec L d w1; obs_vec L s w1]
  | OpMoveCtor d s =>
      let v := getv w s in
      let w1 := setv (setv w s (Some (moved_from v)) [] nb) d (Some v) [] nb in
      emit w1 [obs_vec L d w1; obs_vec L s w1]
  | OpMoveAssign d s =>
      if Nat.eqb d s then emit w [obs_vec L d w]
      else
        let '(v, s1, e, nb') := move_assign K L (getv w d) (getv w s) junk nb in
        let w1 := setv (setv w s (Some s1) [] nb) d (Some v) e nb' in
        emit w1 [obs_vec L d w1; obs_vec L s w1]
  | OpSwap a b =>
      if Nat.eqb a b then emit w [obs_vec L a w]
      else
        let '(va, vb) := swap_vec K (getv w a) (getv w b) in
        let w1 := setv (setv w a (Some va) [] nb) b (Some vb) [] nb in
        emit w1 [obs_vec L a w1; obs_vec L b w1]
  | OpJunk b => set_junk w b
  | OpFailAt k =>
      {| w_vecs := w_vecs w; w_elems := w_elems w; w_nb := w_nb w; w_junk := w_junk w; w_fail := Some k;
         w_out := w_out w |}
  | OpRefAssign d i s j mv =>
      let same := Nat.eqb d s in
      let '(vd, vs, e) := ref_assign mv L same (getv w d) i (getv w s) j in
      let w1 := setv (setv w s (Some vs) [] nb) d (Some vd) e nb in
      emit w1 (obs_vec L d w1 :: (if same then [] else [obs_vec L s w1]))
  | OpRefSwap a i b j =>
      let same := Nat.eqb a b in
      let '(va, vb, e) := ref_swap L same (getv w a) i (getv w b) j in
      let w1 := setv (setv w b (Some vb) [] nb) a (Some va) e nb in
      emit w1 (obs_vec L a w1 :: (if same then [] else [obs_vec L b w1]))
  | OpWrite s i k o bs =>
      let v := getv w s in
      let a := fst (nth k (vfl L v i) fld0) + o * psz (nth k L pparam0) in
      let w1 := setv w s (Some (set_mem v (mwrite (v_mem v) a bs))) [] nb in
      emit w1 [obs_vec L s w1]
  | OpAlgo kind s a b c s2 =>
      let v := getv w s in
      match kind with
      | O => (* rotate(a, b, c): same result as reverse [a,b), reverse [b,c), reverse [a,c) *)
          let '(v1, _) := swaps L true v v (rev_pairs a b ++ rev_pairs b c ++ rev_pairs a c) in
          let w1 := setv w s (Some v1) [] nb in emit w1 [obs_vec L s w1]
      | S O =>
          let '(v1, _) := swaps L true v v (rev_pairs a c) in
          let w1 := setv w s (Some v1) [] nb in emit w1 [obs_vec L s w1]
      | _ =>
          let same := Nat.eqb s s2 in
          let '(v1, v2) := swaps L same v (getv w s2) (range_pairs a b c) in
          let w1 := setv (setv w s2 (Some v2) [] nb) s (Some v1) [] nb in
          emit w1 (obs_vec L s w1 :: (if same then [] else [obs_vec L s2 w1]))
      end
  | OpIter s i j => emit w [OIter (iter_battery i j (vsize L (getv w s)))]
  | OpEFromRef e s i mv aid =>
      let v := getv w s in
      let '(ms, el, evs) := elem_from_ref mv L (v_mem v) (vfl L v i) (bidn (v_bid v)) aid junk nb in
      let w1 := sete (setv w s (Some (set_mem v ms)) [] nb) e (Some el) evs (S nb) in
      emit w1 [obs_el L e w1; obs_vec L s w1]
  | OpECopy d s =>
      let '(el, evs) := elem_copy L (gete w s) (soccc K (e_aid (gete w s))) junk nb in
      let w1 := sete w d (Some el) evs (S nb) in emit w1 [obs_el L d w1; obs_el L s w1]
  | OpECopyAlloc d s aid =>
      let '(el, evs) := elem_copy_alloc L (gete w s) aid junk nb in
      let w1 := sete w d (Some el) evs (S nb) in emit w1 [obs_el L d w1; obs_el L s w1]
  | OpEMove d s =>
      let e := gete w s in
      let w1 := sete (sete w s (Some (elem_moved_from e)) [] nb) d (Some e) [] nb in
      emit w1 [obs_el L d w1; obs_el L s w1]
  | OpEMoveAlloc d s aid =>
      let '(el, src, evs, fresh) := elem_move_alloc (always_eq K) L (gete w s) aid junk nb in
      let w1 := sete (sete w s (Some src) [] nb) d (Some el) evs (if fresh then S nb else nb) in
      emit w1 [obs_el L d w1; obs_el L s w1]
  | OpECopyAssign d s =>
      if Nat.eqb d s then emit w [obs_el L d w]
      else
        let '(el, evs, nb') := elem_copy_assign (pocca K) (always_eq K) L (gete w d) (gete w s) junk nb in
        let w1 := sete w d (Some el) evs nb' in emit w1 [obs_el L d w1; obs_el L s w1]
  | OpEMoveAssign d s =>
      if Nat.eqb d s then emit w [obs_el L d w]
      else
        let '(el, src, evs, nb') := elem_move_assign (pocma K) (always_eq K) L (gete w d) (gete w s) junk nb in
        let w1 := sete (sete w s (Some src) [] nb) d (Some el) evs nb' in
        emit w1 [obs_el L d w1; obs_el L s w1]
  | OpESwap a b =>
      if Nat.eqb a b then emit w [obs_el L a w]
      else
        let '(ea, eb) := elem_swap (pocs K) (gete w a) (gete w b) in
        let w1 := sete (sete w a (Some ea) [] nb) b (Some eb) [] nb in
        emit w1 [obs_el L a w1; obs_el L b w1]
  | OpEAssignRef e s i mv =>
      let v := getv w s in let el := gete w e in
      let '(ms, md, evs) := assign_fl mv L false (v_mem v) (vfl L v i) (bidn (v_bid v))
                                      (e_mem el) (e_fl el) (bidn (e_bid el)) in
      let w1 := sete (setv w s (Some (set_mem v ms)) [] nb) e (Some (set_emem el md)) evs nb in
      emit w1 [obs_el L e w1; obs_vec L s w1]
  | OpRefAssignE s i e mv =>
      let v := getv w s in let el := gete w e in
      let '(ms, md, evs) := assign_fl mv L false (e_mem el) (e_fl el) (bidn (e_bid el))
                                      (v_mem v) (vfl L v i) (bidn (v_bid v)) in
      let w1 := sete (setv w s (Some (set_mem v md)) evs nb) e (Some (set_emem el ms)) [] nb in
      emit w1 [obs_vec L s w1; obs_el L e w1]
  | OpEDestroy e =>
      let evs := elem_destroy L (gete w e) in
      let w1 := sete w e None evs nb in emit w1 [obs_el L e w1]
  | OpEObserve e => emit w [obs_el L e w]
  | OpECmpE a b =>
      let x := gete w a in let y := gete w b in
      emit w [OCmp (cmp_fl L (e_mem x) (e_fl x) (e_mem y) (e_fl y))]
  | OpECmpR e s i =>
      let x := gete w e in let v := getv w s in
      emit w [OCmp (cmp_fl L (e_mem x) (e_fl x) (v_mem v) (vfl L v i));
              OCmp (cmp_fl L (v_mem v) (vfl L v i) (e_mem x) (e_fl x))]
  | OpCase tc uc fc rv n src => let '(st, mvd) := construct_case tc uc fc rv n src in emit w [OCase st mvd]
  | OpNop => w
  | OpConstOps s t =>
      emit w [obs_vec L s w; OCmp (cmp_vecs L (getv w s) (getv w t)); OCmp (cmp_vecs L (getv w s) (getv w s))]
  | OpThreads s t n => emit w [OThreads n]
  | OpEByte s i =>
      let v := getv w s in
      emit w [OEByte true (SA L * units L (ref_bytes L (vfl L v i)))]
  | OpCmpVec a b => emit w [OCmp (cmp_vecs L (getv w a) (getv w b))]
  | OpCmpRef a i b j => emit w [OCmp (cmp_refs L (getv w a) i (getv w b) j)]
  | OpObserve s => emit w [obs_vec L s w]
  end.

(* ---------- allocation failure ----------
   Every operation of the library that allocates does so BEFORE it changes anything (grow:
   "allocate memory first because it might throw"; construction: members not yet visible;
   copy / move assignment: new block and table first).  A throwing allocation therefore
   leaves every operand as it was; the blocks the operation had already obtained are
   returned by the destructors of its locals / members during unwinding. *)
Definition is_alloc (o : obs) : bool := match o with OEv (EAlloc _ _ _ _) => true | _ => false end.
Definition dealloc_of (o : obs) : list obs :=
  match o with OEv (EAlloc a u n b) => [OEv (EDealloc a u n b)] | _ => [] end.
Definition afail_of (o : obs) : list obs :=
  match o with OEv (EAlloc a u n _) => [OAFail a u n] | _ => [] end.
Definition obs_all (L : list param) (w : world) : list obs :=
  flat_map (fun s => if hasv w s then [obs_vec L s w] else []) (seq 0 4)
  ++ flat_map (fun s => match nth s (w_elems w) None with Some _ => [obs_el L s w] | None => [] end) (seq 0 4).

Definition step_f (K : akind) (L : list param) (w : world) (o : op) : world :=
  match w_fail w with
  | None => step K L w o
  | Some k =>
      let w1 := step K L w o in
      (* what this step emitted, in order *)
      let new := rev (firstn (length (w_out w1) - length (w_out w)) (w_out w1)) in
      let allocs := filter is_alloc new in
      if Nat.ltb k (length allocs) then
        let done := firstn k allocs in
        let w2 := {| w_vecs := w_vecs w; w_elems := w_elems w; w_nb := (w_nb w + k)%nat; w_junk := w_junk w;
                     w_fail := None; w_out := w_out w |} in
        emit w2 (done ++ afail_of (nth k allocs OThrow) ++ flat_map dealloc_of (rev done) ++ [OThrow] ++ obs_all L w2)
      else
        {| w_vecs := w_vecs w1; w_elems := w_elems w1; w_nb := w_nb w1; w_junk := w_junk w1;
           w_fail := Some (k - length allocs)%nat; w_out := w_out w1 |}
  end.

Definition world0 : world :=
  {| w_vecs := repeat None 4; w_elems := repeat None 4; w_nb := O; w_junk := 170; w_fail := None; w_out := [] |}.

Fixpoint run_from (K : akind) (L : list param) (w : world) (ops : list op) (n : nat) : world :=
  match ops with
  | [] => w
  | o :: ops' => run_from K L (step_f K L (emit w [OStep n]) o) ops' (S n)
  end.

Definition run (K : akind) (L : list param) (ops : list op) : list obs :=
  rev (w_out (run_from K L world0 ops O)).
