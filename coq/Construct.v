(* Construct.v — what emplace_back stores for a FixedSize / VaryingSize parameter, as a
   function of the FORM of the source (range or iterator, lvalue or rvalue, with or without
   data()/size()) and of the stored and source value types: the dispatch of
   detail::uninitialized_range_construct / uninitialized_construct (memory.hpp:82-130)
   with MEMCPY_COMPATIBLE (typeTraits.hpp), HAS_DATA_AND_SIZE (range.hpp) and
   CONTIGUOUS_ITERATOR_V (iterator.hpp).  Definitions only. *)
From Coq Require Import ZArith List Bool.
From Cntgs Require Import Base Mem.
Import ListNotations.
Local Open Scope Z_scope.

(* ---------- value types ---------- *)
Inductive vty :=
| VBool
| VUInt (n : Z) | VSInt (n : Z)          (* n bytes *)
| VEnumU (n : Z) | VEnumS (n : Z)        (* enumeration with unsigned / signed underlying type *)
| VFloat (n : Z)                         (* 4: float, 8: double *)
| VPtr (cls : Z)                         (* pointer to class number cls (0 = most derived) *)
| VFahr | VCels                          (* trivially copyable classes of 4 bytes; Cels(Fahr) converts *)
| VWrap                                  (* trivially copyable class of 4 bytes with operator int32_t *)
| VMv                                    (* class with user-provided copy / move constructors *)
| VRaw                                   (* trivially copyable 4-byte source {fd} *)
| VHandle.                               (* 8-byte {fd, adopted}: Handle(const Raw&) looks, Handle(Raw&&) adopts and resets the source *)

Definition vsz (t : vty) : Z :=
  match t with
  | VBool => 1 | VUInt n | VSInt n | VEnumU n | VEnumS n | VFloat n => n
  | VPtr _ => 8 | VFahr | VCels | VWrap => 4 | VMv => 8 | VRaw => 4 | VHandle => 8
  end.
Definition trivially_copyable (t : vty) : bool := match t with VMv => false | _ => true end.
Definition is_float (t : vty) : bool := match t with VFloat _ => true | _ => false end.
Definition is_integral (t : vty) : bool := match t with VBool | VUInt _ | VSInt _ => true | _ => false end.
Definition is_enum (t : vty) : bool := match t with VEnumU _ | VEnumS _ => true | _ => false end.
Definition vty_eqb (a b : vty) : bool :=
  match a, b with
  | VBool, VBool | VFahr, VFahr | VCels, VCels | VWrap, VWrap | VMv, VMv | VRaw, VRaw | VHandle, VHandle => true
  | VUInt n, VUInt m | VSInt n, VSInt m | VEnumU n, VEnumU m | VEnumS n, VEnumS m
  | VFloat n, VFloat m | VPtr n, VPtr m => n =? m
  | _, _ => false
  end.

(* MEMCPY_COMPATIBLE<T, U> (typeTraits.hpp): equal size, both trivially copyable, and either
   the same type or both integral / enumeration types where a bool is only ever filled from
   a bool.  (The pinned tree asked only for equal floating-point-ness instead of the last
   clause: see memcpy_compatible_old and the refutation in Properties_C15.v.) *)
Definition memcpy_compatible (T U : vty) : bool :=
  (vsz T =? vsz U) && trivially_copyable T && trivially_copyable U &&
  (vty_eqb T U ||
   ((is_integral T || is_enum T) && (is_integral U || is_enum U) &&
    (negb (vty_eqb T VBool) || vty_eqb U VBool))).
Definition memcpy_compatible_old (T U : vty) : bool :=
  (vsz T =? vsz U) && trivially_copyable T && trivially_copyable U && Bool.eqb (is_float T) (is_float U).

(* ---------- values, static_cast<T>(u), object representation ---------- *)
(* a value of an arithmetic / enumeration / class type is the integer it holds (floats only
   ever hold small integers here), a pointer value is a byte offset from a fixed base *)
Definition wrapu (n v : Z) : Z := v mod 2 ^ (8 * n).
Definition wraps (n v : Z) : Z :=
  let w := wrapu n v in if w <? 2 ^ (8 * n - 1) then w else w - 2 ^ (8 * n).
(* offset of base class number [cls] inside the most derived class D : B1, B2 *)
Definition base_off (cls : Z) : Z := if cls =? 2 then 8 else 0.

(* T(u): the value of type T constructed from the value [v] of type U *)
Definition conv (U T : vty) (v : Z) : Z :=
  match T with
  | VBool => if v =? 0 then 0 else 1
  | VUInt n | VEnumU n => (match U with VWrap => wrapu n (v + 1) | _ => wrapu n v end)
  | VSInt n | VEnumS n => (match U with VWrap => wraps n (v + 1) | _ => wraps n v end)
  | VFloat _ => v
  | VPtr c => (match U with VPtr c' => v + base_off c - base_off c' | _ => v end)
  | VCels => (match U with VFahr => Z.quot ((v - 32) * 5) 9 | _ => v end)
  | VFahr | VWrap | VMv | VRaw | VHandle => v
  end.

(* T(u) for an lvalue u ([mvd] = false) or T(std::move(u)) ([mvd] = true): they differ for one
   pair of the universe only *)
Definition convm (mvd : bool) (U T : vty) (v : Z) : Z :=
  match T, U with
  | VHandle, VRaw => wrapu 4 v + (if mvd then 2 ^ 32 else 0)
  | _, _ => conv U T v
  end.

(* IEEE-754 bits of a small non-negative integer (exact below 2^mant) *)
Definition float_bits (expbits mant : Z) (v : Z) : Z :=
  if v <=? 0 then 0
  else
    let e := Z.log2 v in
    let bias := 2 ^ (expbits - 1) - 1 in
    (e + bias) * 2 ^ mant + (v * 2 ^ (mant - e) - 2 ^ mant).

(* object representation (little endian) *)
Definition repr (T : vty) (v : Z) : list Z :=
  match T with
  | VFloat 4 => enc 4 (float_bits 8 23 v)
  | VFloat _ => enc 8 (float_bits 11 52 v)
  | _ => enc (Z.to_nat (vsz T)) (wrapu (vsz T) v)
  end.

(* the values a variable of type U can hold (used as the precondition of the theorems) *)
Definition in_range (U : vty) (v : Z) : Prop :=
  match U with
  | VBool => v = 0 \/ v = 1
  | VUInt n | VEnumU n => 0 <= v < 2 ^ (8 * n)
  | VSInt n | VEnumS n => - 2 ^ (8 * n - 1) <= v < 2 ^ (8 * n - 1)
  | VFloat _ => 0 <= v < 2 ^ 20
  | VPtr _ => 0 <= v < 2 ^ 40
  | VFahr | VCels => - 2 ^ 28 <= v < 2 ^ 28      (* (f - 32) * 5 does not overflow *)
  | VWrap => - 2 ^ 31 <= v < 2 ^ 31 - 1
  | VMv | VRaw => 0 <= v < 2 ^ 31
  | VHandle => 0 <= v < 2 ^ 33
  end.

(* ---------- source forms ---------- *)
Inductive form :=
| FVector        (* contiguous container: std::data / std::size *)
| FList          (* node based container: a range without data() *)
| FGenerated     (* a generated (input) range *)
| FCArray        (* C array *)
| FPointer       (* pointer used as iterator *)
| FContigIter    (* std::vector<U>::iterator *)
| FListIter      (* std::list<U>::iterator *)
| FMoveIter      (* std::move_iterator over a contiguous iterator *)
| FDequeIter     (* std::deque<U>::iterator: random access, operator-> yields a pointer, NOT contiguous *)
| FReverseIter.  (* std::vector<U>::reverse_iterator: likewise *)

Definition is_range (f : form) : bool :=
  match f with FVector | FList | FGenerated | FCArray => true | _ => false end.
(* std::decay_t of a C array is a pointer, for which std::data does not exist *)
Definition has_data_and_size (f : form) : bool := match f with FVector => true | _ => false end.

Inductive path := PMemcpy | PCopy | PMove.

(* [rvalue]: the range argument is an rvalue (ignored for iterators, which are taken by
   const reference); emplace_back always passes IgnoreAliasing = true *)
Definition dispatch (f : form) (rvalue : bool) (T U : vty) : path :=
  if is_range f then
    if has_data_and_size f && memcpy_compatible T U then PMemcpy
    else if rvalue then PMove else PCopy
  else
    match f with
    | FPointer | FContigIter => if memcpy_compatible T U then PMemcpy else PCopy
    | FMoveIter => PMove     (* uninitialized_copy_n over a move_iterator moves *)
    | _ => PCopy
    end.

(* what ends up in the vector: one byte string per stored object; [n]: the number of
   objects the parameter holds (for a range: its size) *)
(* the items of a generated range are temporaries: T(item) sees an rvalue whatever the range's
   own value category *)
Definition is_generated (f : form) : bool := match f with FGenerated => true | _ => false end.
Definition stored (f : form) (rvalue : bool) (T U : vty) (src : list Z) (n : nat) : list (list Z) :=
  match dispatch f rvalue T U with
  | PMemcpy => map (repr U) (firstn n src)
  | PCopy => map (fun v => repr T (convm (is_generated f) U T v)) (firstn n src)
  | PMove => map (fun v => repr T (convm true U T v)) (firstn n src)
  end.
(* how often each source item has been moved from *)
Definition moved_from (f : form) (rvalue : bool) (T U : vty) (src : list Z) (n : nat) : list Z :=
  match dispatch f rvalue T U with
  | PMove => repeat 1 (Nat.min n (length src)) ++ repeat 0 (length src - n)
  | _ => repeat 0 (length src)
  end.

(* ---------- codes shared with the harness (tools/construct_gen.py) ---------- *)
Definition vty_of_code (c : nat) : vty :=
  match c with
  | 0 => VBool | 1 => VUInt 1 | 2 => VSInt 1 | 3 => VUInt 2 | 4 => VSInt 2 | 5 => VUInt 4 | 6 => VSInt 4
  | 7 => VUInt 8 | 8 => VSInt 8 | 9 => VFloat 4 | 10 => VFloat 8 | 11 => VEnumU 1 | 12 => VEnumS 4
  | 13 => VPtr 0 | 14 => VPtr 2 | 15 => VPtr 1 | 16 => VFahr | 17 => VCels | 18 => VWrap | 19 => VMv | 20 => VRaw | 21 => VHandle
  | 22 => VMv      (* harness type Tok: trivial copy constructor, user-provided move constructor *)
  | _ => VSInt 1
  end%nat.
Definition form_of_code (c : nat) : form :=
  match c with
  | 0 => FVector | 1 => FList | 2 => FGenerated | 3 => FCArray | 4 => FPointer | 5 => FContigIter
  | 6 => FListIter | 7 => FMoveIter | 8 => FDequeIter | _ => FReverseIter
  end%nat.
Definition construct_case (tc uc fc : nat) (rv : bool) (n : nat) (src : list Z) : list (list Z) * list Z :=
  let T := vty_of_code tc in let U := vty_of_code uc in let f := form_of_code fc in
  (* moves are only observable on the instrumented class *)
  (* ... and not on the temporaries of a generated range *)
  (stored f rv T U src n,
   if (vty_eqb U VMv || (vty_eqb U VRaw && vty_eqb T VHandle)) && negb (match f with FGenerated => true | _ => false end)
   then moved_from f rv T U src n else repeat (-1) (length src)).
