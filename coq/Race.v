(* Race.v — read-only use from several threads (C19, partial).
   What the model can carry: every const operation has a FOOTPRINT, the abstract locations
   it reads and writes.  Reads go to the shared state (the vector object, its address table,
   its data block); writes go only to memory the executing thread obtained itself while
   executing the operation (the block of a copy, of an element).  Two accesses conflict when
   they touch the same location from different threads and one of them writes.  Whatever the
   interleaving, const operations never conflict.
   What the model cannot exhibit: the hardware / compiler memory model (torn or invented
   stores) and the allocator's own synchronisation. *)
From Coq Require Import ZArith List Bool Lia.
From Cntgs Require Import Base Layout Mem Vector Proxy.
Import ListNotations.
Local Open Scope Z_scope.

Inductive loc :=
| LRec (s : nat)                     (* members of vector object s: capacity, owning pointer, locator *)
| LSlot (s : nat) (i : Z)            (* slot i of the address table of vector s *)
| LByte (s : nat) (off : Z)          (* byte off of the data block of vector s *)
| LPriv (tid : nat) (k : nat).       (* k-th byte a thread obtained from its allocator during an operation *)

(* the const operations the property names *)
Inductive cop :=
| CQuery (s : nat)                   (* size / capacity / empty / memory_consumption / data / get_allocator *)
| CAccess (s : nat) (i : Z)          (* operator[] / front / back / iterator dereference + reading every field *)
| CIterate (s : nat)                 (* begin .. end, dereferencing everything *)
| CCompare (s t : nat)               (* any of the six operators between two vectors *)
| CCopy (s : nat)                    (* copy construction of a new vector from s *)
| CElement (s : nat) (i : Z).        (* value_type{s[i]} from a const reference *)

Definition table_reads (L : list param) (s : nat) (i : Z) : list loc :=
  if has_varying L then [LSlot s i] else [].
(* the bytes of element i: [eaddr i, end of its last field) *)
Definition elem_reads (L : list param) (v : vec) (s : nat) (i : Z) : list loc :=
  let a := eaddr L v i in
  let e := snd (load L (v_fixed v) (v_mem v) a) in
  LRec s :: table_reads L s i ++ map (fun k => LByte s (a + Z.of_nat k)) (seq 0 (Z.to_nat (e - a))).
Definition all_reads (L : list param) (v : vec) (s : nat) : list loc :=
  LRec s :: flat_map (fun i => elem_reads L v s (Z.of_nat i)) (seq 0 (Z.to_nat (vsize L v))).

Definition reads (L : list param) (vs : nat -> vec) (c : cop) : list loc :=
  match c with
  | CQuery s => LRec s :: table_reads L s 0
  | CAccess s i => elem_reads L (vs s) s i
  | CIterate s => all_reads L (vs s) s
  | CCompare s t => all_reads L (vs s) s ++ all_reads L (vs t) t
  | CCopy s => all_reads L (vs s) s
  | CElement s i => elem_reads L (vs s) s i
  end.
(* what the operation writes: only memory the thread allocated for the result *)
Definition writes (L : list param) (vs : nat -> vec) (tid : nat) (c : cop) : list loc :=
  match c with
  | CCopy s => map (LPriv tid) (seq 0 (Z.to_nat (consumption L (vs s)) + 8 * Z.to_nat (v_cap (vs s))))
  | CElement s i =>
      let a := eaddr L (vs s) i in
      map (LPriv tid) (seq 0 (Z.to_nat (snd (load L (v_fixed (vs s)) (v_mem (vs s)) a) - a) + Z.to_nat (SA L)))
  | _ => []
  end.

Record access := { a_tid : nat; a_loc : loc; a_write : bool }.
Definition accesses (L : list param) (vs : nat -> vec) (tid : nat) (c : cop) : list access :=
  map (fun l => {| a_tid := tid; a_loc := l; a_write := false |}) (reads L vs c)
  ++ map (fun l => {| a_tid := tid; a_loc := l; a_write := true |}) (writes L vs tid c).

Definition conflict (x y : access) : Prop :=
  a_tid x <> a_tid y /\ a_loc x = a_loc y /\ (a_write x = true \/ a_write y = true).

(* a trace is any sequence of accesses each of which stems from some operation of some
   thread's program: every interleaving of the threads' accesses is such a sequence *)
Definition from_programs (L : list param) (vs : nat -> vec) (progs : nat -> list cop) (tr : list access) : Prop :=
  forall x, In x tr -> exists c, In c (progs (a_tid x)) /\ In x (accesses L vs (a_tid x) c).
