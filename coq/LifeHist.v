(* LifeHist.v — object lifetimes along a history (C06): which objects every operation
   constructs and destroys, for EVERY well-formed parameter list, and the balance over any
   valid history: the objects constructed so far are exactly the objects destroyed so far
   plus the objects of the elements the vector holds now (in its current block). *)
From Coq Require Import ZArith Lia List Bool Permutation.
From Cntgs Require Import Base BaseLemmas Layout LayoutThm Mem MemLemmas Vector Spec Rep ElemLemmas Ordered
  EsizeThm Refine LifeThm TightThm CmpContent WorldThm NtRefine.
Import ListNotations.
Local Open Scope Z_scope.

Definition obj := (nat * Z * Z)%type.       (* block id, offset, size *)
Definition born (e : ev) : option obj :=
  match e with ECtor b o s | ECopyC b o s _ _ | EMoveC b o s _ _ => Some (b, o, s) | _ => None end.
Definition died (e : ev) : option obj :=
  match e with EDtor b o s => Some (b, o, s) | _ => None end.
Definition tag (b : nat) (l : list (Z * Z)) : list obj := map (fun os => (b, fst os, snd os)) l.

Lemma tag_app b l1 l2 : tag b (l1 ++ l2) = tag b l1 ++ tag b l2.
Proof. unfold tag. apply map_app. Qed.

(* ---------- element level ---------- *)
Lemma born_obj_events_ctor bid a sz n :
  keep born (obj_events (fun x => ECtor bid x sz) a sz n) = tag bid (map (fun j => (a + Z.of_nat j * sz, sz)) (seq 0 n)).
Proof. unfold obj_events, tag. induction (seq 0 n) as [|j l IH]; cbn; [reflexivity|]. now rewrite IH. Qed.
Lemma died_obj_events_ctor bid a sz n : keep died (obj_events (fun x => ECtor bid x sz) a sz n) = [].
Proof. unfold obj_events. induction (seq 0 n) as [|j l IH]; cbn; auto. Qed.
Lemma died_obj_events_dtor bid a sz n :
  keep died (obj_events (fun x => EDtor bid x sz) a sz n) = tag bid (map (fun j => (a + Z.of_nat j * sz, sz)) (seq 0 n)).
Proof. unfold obj_events, tag. induction (seq 0 n) as [|j l IH]; cbn; [reflexivity|]. now rewrite IH. Qed.
Lemma born_obj_events_dtor bid a sz n : keep born (obj_events (fun x => EDtor bid x sz) a sz n) = [].
Proof. unfold obj_events. induction (seq 0 n) as [|j l IH]; cbn; auto. Qed.

(* emplace_at *)
Lemma store_from_born L : forall pv vals bid m a,
  (length L <= length pv)%nat -> length vals = length L ->
  keep born (snd (fst (store_from L pv vals bid m a))) =
    tag bid (obj_addrs (ntc false) L (fst (place_from L pv (cnts_of vals) a)) (cnts_of vals)) /\
  keep died (snd (fst (store_from L pv vals bid m a))) = [].
Proof.
  induction L as [|p L IH]; intros pv vals bid m a Hl Hv; [split; reflexivity|].
  destruct pv as [|pt pv]; [cbn in Hl; lia|]. destruct vals as [|f vals]; [discriminate|].
  cbn [store_from cnts_of map]. fold (cnts_of vals). rewrite place_from_cons. cbn [fst obj_addrs].
  specialize (IH pv vals bid (mwrite m (align_if (pt <? pal p) (pal p) a) (concat f))
                 (align_if (pt <? pal p) (pal p) a + Z.of_nat (length f) * psz p)
                 ltac:(cbn in Hl; lia) ltac:(cbn in Hv; lia)).
  destruct (store_from L pv vals bid _ _) as [[m2 evs2] e]. cbn [fst snd] in *.
  destruct IH as [I1 I2]. rewrite !keep_app, I1, I2, tag_app. destruct (ntc _ p).
  - rewrite born_obj_events_ctor, died_obj_events_ctor, Nat2Z.id. split; reflexivity.
  - split; reflexivity.
Qed.

(* ElementTraits::destruct *)
Lemma destruct_fields_died L : forall xs cnts bid m,
  length xs = length L -> length cnts = length L ->
  keep died (snd (destruct_fields L (combine xs cnts) bid m)) = tag bid (obj_addrs ntd L xs cnts) /\
  keep born (snd (destruct_fields L (combine xs cnts) bid m)) = [].
Proof.
  induction L as [|p L IH]; intros xs cnts bid m Hx Hc; [split; reflexivity|].
  destruct xs as [|x xs]; [discriminate|]. destruct cnts as [|c cnts]; [discriminate|].
  cbn [combine destruct_fields obj_addrs].
  specialize (IH xs cnts bid (if ntd p then scribble m x (psz p) (Z.to_nat c) (dead_bytes (psz p)) else m)
                 ltac:(cbn in Hx; lia) ltac:(cbn in Hc; lia)).
  destruct (destruct_fields L (combine xs cnts) bid _) as [m2 evs2]. cbn [snd] in *.
  destruct IH as [I1 I2]. rewrite !keep_app, I1, I2, tag_app. destruct (ntd p).
  - rewrite died_obj_events_dtor, born_obj_events_dtor. split; reflexivity.
  - split; reflexivity.
Qed.

(* relocation through the copy / move constructor: same offsets in the new block *)
Lemma relocate_objs_born mv p sbid bid : forall n ms m src dst,
  keep born (snd (relocate_objs mv p sbid bid ms m src dst n)) =
    tag bid (map (fun j => (dst + Z.of_nat j * psz p, psz p)) (seq 0 n)) /\
  keep died (snd (relocate_objs mv p sbid bid ms m src dst n)) = [].
Proof.
  induction n as [|n IH]; intros ms m src dst; [split; reflexivity|].
  cbn [relocate_objs].
  specialize (IH (if mv then mwrite ms src (moved_bytes (psz p)) else ms)
                 (mwrite m dst (mread ms src (Z.to_nat (psz p)))) (src + psz p) (dst + psz p)).
  destruct (relocate_objs mv p sbid bid _ _ (src + psz p) (dst + psz p) n) as [[ms2 m2] evs]. cbn [snd] in *.
  destruct IH as [I1 I2]. split.
  - assert (E : tag bid (map (fun j => (dst + Z.of_nat j * psz p, psz p)) (seq 0 (S n))) =
                (bid, dst, psz p) :: tag bid (map (fun j => (dst + psz p + Z.of_nat j * psz p, psz p)) (seq 0 n))).
    { unfold tag. cbn [seq map fst snd]. rewrite <- seq_shift, !map_map. f_equal; [f_equal; f_equal; lia|].
      apply map_ext. intros j. cbn [fst snd]. f_equal. f_equal. lia. }
    rewrite E. destruct mv; cbn [keep born]; rewrite I1; reflexivity.
  - destruct mv; cbn [keep died]; exact I2.
Qed.

Lemma relocate_fields_born mv sbid bid L : forall xs cnts ms m,
  length xs = length L -> length cnts = length L -> Forall (fun c => 0 <= c) cnts ->
  keep born (snd (relocate_fields mv L (combine xs cnts) sbid bid ms m 0)) = tag bid (obj_addrs (ntc mv) L xs cnts) /\
  keep died (snd (relocate_fields mv L (combine xs cnts) sbid bid ms m 0)) = [].
Proof.
  induction L as [|p L IH]; intros xs cnts ms m Hx Hc Hn; [split; reflexivity|].
  destruct xs as [|x xs]; [discriminate|]. destruct cnts as [|c cnts]; [discriminate|].
  cbn [combine relocate_fields obj_addrs]. inversion Hn; subst.
  destruct (ntc _ p).
  - pose proof (relocate_objs_born mv p sbid bid (Z.to_nat c) ms m x (x + 0)) as Ho.
    destruct (relocate_objs mv p sbid bid ms m x (x + 0) (Z.to_nat c)) as [[ms1 m1] e1]. cbn [snd] in Ho.
    specialize (IH xs cnts ms1 m1 ltac:(cbn in Hx; lia) ltac:(cbn in Hc; lia) ltac:(assumption)).
    destruct (relocate_fields mv L (combine xs cnts) sbid bid ms1 m1 0) as [[ms2 m2] e2]. cbn [snd] in *.
    destruct Ho as [O1 O2]. destruct IH as [I1 I2]. rewrite !keep_app, O1, O2, I1, I2, tag_app.
    rewrite Z.add_0_r. split; reflexivity.
  - specialize (IH xs cnts ms m ltac:(cbn in Hx; lia) ltac:(cbn in Hc; lia) ltac:(assumption)).
    destruct (relocate_fields mv L (combine xs cnts) sbid bid ms m 0) as [[ms2 m2] e2]. cbn [snd app] in *.
    exact IH.
Qed.

(* ---------- loading from a source whose non-trivial objects have been moved from ---------- *)
(* [m'] agrees with [m] on the fields of trivially-constructible types of the table [T] *)
Fixpoint agree (L : list param) (T : list (Z * Z)) (m m' : mem) : Prop :=
  match L, T with
  | p :: L', (x, c) :: T' =>
      (ntc true p = false -> forall y, x <= y < x + c * psz p -> m' y = m y) /\ agree L' T' m m'
  | _, _ => True
  end.

(* the parameter in front of a VaryingSize one - it holds the size - is trivially copyable *)
Fixpoint cft (L : list param) : bool :=
  match L with
  | p :: (q :: _) as L' => (if is_varying q then negb (ntc true p) else true) && cft L'
  | _ => true
  end.

Lemma load_from_agree L : forall pv fc m m' a pvl pvl' isplain,
  Forall wfp L -> wf_varying isplain L = true -> cft L = true ->
  (match L with p :: _ => pk p = Varying -> pvl = pvl' | [] => True end) ->
  agree L (fst (load_from L pv fc m a pvl)) m m' ->
  load_from L pv fc m' a pvl' = load_from L pv fc m a pvl.
Proof.
  induction L as [|p L IH]; intros pv fc m m' a pvl pvl' isplain HF Hwv Hc Hp Ha; [reflexivity|].
  destruct pv as [|pt pv]; [reflexivity|]. destruct fc as [|f fc]; [reflexivity|].
  cbn [load_from] in *.
  set (a' := align_if (pt <? pal p) (pal p) a) in *.
  assert (Ec : (match pk p with Plain => 1 | Fixed => f | Varying => pvl' end) =
               (match pk p with Plain => 1 | Fixed => f | Varying => pvl end)).
  { destruct (pk p) eqn:Hk; auto. symmetry. apply Hp. reflexivity. }
  rewrite Ec. set (c := match pk p with Plain => 1 | Fixed => f | Varying => pvl end) in *.
  apply Forall_cons_iff in HF. destruct HF as [[Hs _] HF].
  cbn [wf_varying] in Hwv. apply andb_true_iff in Hwv. destruct Hwv as [Hv1 Hv2].
  destruct (load_from L pv fc m (a' + c * psz p) (dec (mread m a' (Z.to_nat (psz p))))) as [r e] eqn:El.
  cbn [fst agree] in Ha. destruct Ha as [Hhead Hrest].
  rewrite (IH pv fc m m' (a' + c * psz p) (dec (mread m a' (Z.to_nat (psz p)))) (dec (mread m' a' (Z.to_nat (psz p)))) (is_plain p)); auto.
  - rewrite El. reflexivity.
  - destruct L as [|q L']; [reflexivity|]. cbn [cft] in Hc. apply andb_true_iff in Hc. tauto.
  - destruct L as [|q L']; [exact I|]. intros Hq.
    cbn [cft] in Hc. apply andb_true_iff in Hc. destruct Hc as [Hc1 _].
    unfold is_varying in Hc1. rewrite Hq in Hc1. cbn [kind_eqb] in Hc1. apply negb_true_iff in Hc1.
    cbn [wf_varying] in Hv2. apply andb_true_iff in Hv2. destruct Hv2 as [Hv2 _].
    unfold is_varying in Hv2. rewrite Hq in Hv2. cbn [kind_eqb] in Hv2.
    unfold is_plain in Hv2. assert (Hk : pk p = Plain) by (destruct (pk p); try discriminate; reflexivity).
    assert (Hc1' : c = 1) by (unfold c; rewrite Hk; reflexivity).
    f_equal. symmetry. apply mread_ext. intros x Hx. apply Hhead; [exact Hc1|]. rewrite Hc1'. rewrite Z2Nat.id in Hx by lia. lia.
  - rewrite El. exact Hrest.
Qed.

Lemma load_from_ext_ge L : forall pv fc m m' a pvl, Forall wfp L ->
  (forall x, a <= x -> m' x = m x) ->
  Forall (fun ac => 0 <= snd ac) (fst (load_from L pv fc m a pvl)) ->
  load_from L pv fc m' a pvl = load_from L pv fc m a pvl.
Proof.
  induction L as [|p L IH]; intros pv fc m m' a pvl HF Hm Hn; [reflexivity|].
  destruct pv as [|pt pv]; [reflexivity|]. destruct fc as [|f fc]; [reflexivity|].
  cbn [load_from] in *.
  apply Forall_cons_iff in HF. destruct HF as [[Hs Hal] HF]. pose proof (pow2_pos _ Hal) as Hap.
  set (a' := align_if (pt <? pal p) (pal p) a) in *.
  assert (Ha' : a <= a') by (apply align_if_ge; auto).
  set (c := match pk p with Plain => 1 | Fixed => f | Varying => pvl end) in *.
  assert (Er : mread m' a' (Z.to_nat (psz p)) = mread m a' (Z.to_nat (psz p))).
  { apply mread_ext. intros x Hx. apply Hm. lia. }
  rewrite Er.
  destruct (load_from L pv fc m (a' + c * psz p) (dec (mread m a' (Z.to_nat (psz p))))) as [r e] eqn:El.
  cbn [fst] in Hn. inversion Hn as [|? ? Hc0 Hr]; subst. cbn [snd] in Hc0.
  rewrite (IH pv fc m m' (a' + c * psz p) _ HF); [rewrite El; reflexivity| |rewrite El; exact Hr].
  intros x Hx. apply Hm. assert (0 <= c * psz p) by (apply Z.mul_nonneg_nonneg; lia). lia.
Qed.

(* relocation touches the source only inside the objects it moves from *)
Lemma relocate_objs_src_frame mv p sbid bid : forall n ms m src dst y, 0 < psz p ->
  ~ (src <= y < src + Z.of_nat n * psz p) ->
  fst (fst (relocate_objs mv p sbid bid ms m src dst n)) y = ms y.
Proof.
  induction n as [|n IH]; intros ms m src dst y Hs Hy; [reflexivity|].
  cbn [relocate_objs].
  specialize (IH (if mv then mwrite ms src (moved_bytes (psz p)) else ms)
                 (mwrite m dst (mread ms src (Z.to_nat (psz p)))) (src + psz p) (dst + psz p) y Hs ltac:(nia)).
  destruct (relocate_objs mv p sbid bid _ _ (src + psz p) (dst + psz p) n) as [[ms2 m2] evs]. cbn [fst] in *.
  rewrite IH. destruct mv; [|reflexivity]. apply mwrite_out. rewrite moved_bytes_length, Z2Nat.id by lia. nia.
Qed.

Lemma agree_base L : forall cnts xs m m1 m2 lo hi, Forall wfp L -> Forall (fun c => 0 <= c) cnts ->
  ordered_from lo (extents L cnts xs) hi -> (forall y, lo <= y < hi -> m1 y = m y) ->
  agree L (combine xs cnts) m1 m2 -> agree L (combine xs cnts) m m2.
Proof.
  induction L as [|p L IH]; intros cnts xs m m1 m2 lo hi HF Hc Ho Hm Ha; [exact I|].
  destruct xs as [|x0 xs]; [exact I|]. destruct cnts as [|c cnts]; [exact I|].
  cbn [combine agree] in *. cbn [extents ordered_from] in Ho. destruct Ho as (H1 & H2 & Ho).
  apply Forall_cons_iff in HF. destruct HF as [[Hs _] HF]. inversion Hc; subst.
  pose proof (ordered_from_le _ _ _ Ho) as Hle. destruct Ha as [Ah Ar]. split.
  - intros Hn y Hy. rewrite (Ah Hn y Hy). apply Hm. lia.
  - apply (IH cnts xs m m1 m2 (x0 + c * psz p) hi HF ltac:(assumption) Ho); [|exact Ar]. intros y Hy. apply Hm. lia.
Qed.

Lemma agree_frame L : forall cnts xs m m1 m2 lo hi, Forall wfp L -> Forall (fun c => 0 <= c) cnts ->
  ordered_from lo (extents L cnts xs) hi -> (forall y, lo <= y < hi -> m2 y = m1 y) ->
  agree L (combine xs cnts) m m1 -> agree L (combine xs cnts) m m2.
Proof.
  induction L as [|p L IH]; intros cnts xs m m1 m2 lo hi HF Hc Ho Hm Ha; [exact I|].
  destruct xs as [|x0 xs]; [exact I|]. destruct cnts as [|c cnts]; [exact I|].
  cbn [combine agree] in *. cbn [extents ordered_from] in Ho. destruct Ho as (H1 & H2 & Ho).
  apply Forall_cons_iff in HF. destruct HF as [[Hs _] HF]. inversion Hc; subst.
  pose proof (ordered_from_le _ _ _ Ho) as Hle. destruct Ha as [Ah Ar]. split.
  - intros Hn y Hy. rewrite Hm by lia. apply (Ah Hn y Hy).
  - apply (IH cnts xs m m1 m2 (x0 + c * psz p) hi HF ltac:(assumption) Ho); [|exact Ar]. intros y Hy. apply Hm. lia.
Qed.

Lemma relocate_fields_src_frame sbid bid L : forall cnts xs ms m lo hi,
  Forall wfp L -> Forall (fun c => 0 <= c) cnts -> ordered_from lo (extents L cnts xs) hi ->
  let ms' := fst (fst (relocate_fields true L (combine xs cnts) sbid bid ms m 0)) in
  (forall y, ~ (lo <= y < hi) -> ms' y = ms y) /\ agree L (combine xs cnts) ms ms'.
Proof.
  induction L as [|p L IH]; intros cnts xs ms m lo hi HF Hc Ho; cbv zeta; [split; [reflexivity|exact I]|].
  destruct xs as [|x0 xs]; [split; [reflexivity|exact I]|]. destruct cnts as [|c cnts]; [split; [reflexivity|exact I]|].
  cbn [combine relocate_fields agree]. cbn [extents ordered_from] in Ho. destruct Ho as (H1 & H2 & Ho).
  apply Forall_cons_iff in HF. destruct HF as [[Hs _] HF]. inversion Hc; subst.
  pose proof (ordered_from_le _ _ _ Ho) as Hle.
  destruct (ntc _ p) eqn:Hn.
  - pose proof (fun y => relocate_objs_src_frame true p sbid bid (Z.to_nat c) ms m x0 (x0 + 0) y Hs) as Hfr.
    rewrite Z2Nat.id in Hfr by lia.
    destruct (relocate_objs true p sbid bid ms m x0 (x0 + 0) (Z.to_nat c)) as [[ms1 m1] e1]. cbn [fst] in Hfr.
    specialize (IH cnts xs ms1 m1 (x0 + c * psz p) hi HF ltac:(assumption) Ho). cbv zeta in IH.
    destruct (relocate_fields true L (combine xs cnts) sbid bid ms1 m1 0) as [[ms2 m2] e2]. cbn [fst] in *.
    destruct IH as [I1 I2]. split; [|split; [discriminate|]].
    + intros y Hy. rewrite I1 by lia. apply Hfr. lia.
    + apply (agree_base L cnts xs ms ms1 ms2 (x0 + c * psz p) hi HF ltac:(assumption) Ho); [|exact I2]. intros y Hy. apply Hfr. lia.
  - specialize (IH cnts xs ms m (x0 + c * psz p) hi HF ltac:(assumption) Ho). cbv zeta in IH.
    destruct (relocate_fields true L (combine xs cnts) sbid bid ms m 0) as [[ms2 m2] e2]. cbn [fst] in *.
    destruct IH as [I1 I2]. split; [|split; [|exact I2]].
    + intros y Hy. apply I1. lia.
    + intros _ y Hy. apply I1. lia.
Qed.

(* ---------- vector level ---------- *)
Definition eobjs (sel : param -> bool) (L : list param) (a : Z) (t : tuple) : list (Z * Z) :=
  obj_addrs sel L (fst (place L (cnts_of t) a)) (cnts_of t).
Fixpoint vobjs (sel : param -> bool) (L : list param) (offs : list Z) (l : list tuple) : list (Z * Z) :=
  match offs, l with
  | a :: o, t :: r => eobjs sel L a t ++ vobjs sel L o r
  | _, _ => []
  end.

Lemma vobjs_app sel L : forall o1 l1 o2 l2, length o1 = length l1 ->
  vobjs sel L (o1 ++ o2) (l1 ++ l2) = vobjs sel L o1 l1 ++ vobjs sel L o2 l2.
Proof.
  induction o1 as [|a o1 IH]; intros [|t l1] o2 l2 Hl; cbn in Hl; try discriminate; [reflexivity|].
  cbn [app vobjs]. rewrite IH by lia. apply app_assoc.
Qed.

Lemma obj_addrs_none sel L : forall xs cnts, forallb (fun p => negb (sel p)) L = true -> obj_addrs sel L xs cnts = [].
Proof.
  induction L as [|p L IH]; intros xs cnts H; [reflexivity|].
  cbn [forallb] in H. apply andb_true_iff in H. destruct H as [Hp H]. apply negb_true_iff in Hp.
  destruct xs; [reflexivity|]. destruct cnts; [reflexivity|]. cbn [obj_addrs]. rewrite Hp. cbn [app]. apply IH; auto.
Qed.

Lemma place_from_fst_len L : forall pv cnts a, (length L <= length pv)%nat -> length cnts = length L ->
  length (fst (place_from L pv cnts a)) = length L.
Proof.
  induction L as [|p L IH]; intros pv cnts a Hl Hc; [reflexivity|].
  destruct pv as [|pt pv]; [cbn in Hl; lia|]. destruct cnts as [|c cnts]; [discriminate|].
  rewrite place_from_cons. cbn [fst length]. f_equal. apply IH; cbn in *; lia.
Qed.

Section LifeHist.
  Variable L : list param.
  Hypothesis Hwf : wf_plist L = true.
  Let HF : Forall wfp L := wf_plist_Forall L Hwf.

  Lemma place_len t a fc : tuple_ok L fc 0 t -> length (fst (place L (cnts_of t) a)) = length L /\ length (cnts_of t) = length L.
  Proof.
    intros Ht. pose proof (tuple_ok_length _ _ _ _ Ht) as Hl.
    assert (Hc : length (cnts_of t) = length L) by (unfold cnts_of; rewrite map_length; exact Hl).
    split; [|exact Hc]. unfold place. apply place_from_fst_len; auto. apply prevs_len_.
  Qed.

  (* emplace_back constructs exactly the objects of the new element, where it is placed *)
  Lemma emplace_evs v t : tuple_ok L (fixed_counts L (v_fixed v)) 0 t ->
    let a := if has_varying L then first_align L (v_last v) else v_stride v * v_count v in
    keep born (snd (emplace_back L v t)) = tag (bidn (v_bid v)) (eobjs (ntc false) L a t) /\
    keep died (snd (emplace_back L v t)) = [].
  Proof.
    intros Ht. cbv zeta. unfold emplace_back, eobjs, store, place.
    destruct (place_len t 0 _ Ht) as [_ Hc].
    destruct (has_varying L).
    - pose proof (store_from_born L (prevs L) t (bidn (v_bid v)) (v_mem v) (first_align L (v_last v)) (prevs_len_ L)
                    ltac:(eapply tuple_ok_length; eauto)) as H.
      destruct (store_from L (prevs L) t (bidn (v_bid v)) (v_mem v) (first_align L (v_last v))) as [[m evs] e].
      cbn [fst snd] in *. exact H.
    - pose proof (store_from_born L (prevs L) t (bidn (v_bid v)) (v_mem v) (v_stride v * v_count v) (prevs_len_ L)
                    ltac:(eapply tuple_ok_length; eauto)) as H.
      destruct (store_from L (prevs L) t (bidn (v_bid v)) (v_mem v) (v_stride v * v_count v)) as [[m evs] e].
      cbn [fst snd] in *. exact H.
  Qed.

  (* destroying element i: exactly its objects *)
  Lemma destruct_elem_evs v l offs i ms : RepO L v l offs -> (i < length l)%nat ->
    (forall x, nth i offs 0 <= x -> ms x = v_mem v x) ->
    keep died (snd (destruct_elem L (set_mem v ms) (Z.of_nat i))) =
      tag (bidn (v_bid v)) (eobjs ntd L (nth i offs 0) (nth i l [])) /\
    keep born (snd (destruct_elem L (set_mem v ms) (Z.of_nat i))) = [].
  Proof.
    intros R Hi Hms. unfold destruct_elem, eobjs.
    destruct (all_dtriv L) eqn:Hd.
    { cbn [snd keep]. rewrite obj_addrs_none by exact Hd. split; reflexivity. }
    pose proof (r_order _ _ _ _ R) as Hord. pose proof (eo_length _ _ _ _ _ Hord) as Hlen.
    destruct (nth_elem_at L v l offs i R Hi) as [Hel Hti].
    set (a := nth i offs 0) in *. set (t := nth i l []) in *.
    destruct (eo_end_firstn_le L i 0 offs l _ Hord ltac:(lia)) as [Hle HaS]. fold a in Hle, HaS.
    assert (Hel' : elem_at L ms a t).
    { eapply (elem_at_ext L Hwf (v_mem v) ms a t); eauto. intros y Hy. apply Hms. lia. }
    change (v_fixed (set_mem v ms)) with (v_fixed v). change (v_mem (set_mem v ms)) with ms.
    change (v_bid (set_mem v ms)) with (v_bid v).
    replace (eaddr L (set_mem v ms) (Z.of_nat i)) with a
      by (symmetry; change (eaddr L (set_mem v ms) (Z.of_nat i)) with (eaddr L v (Z.of_nat i)); apply (rep_eaddr L v l offs i R Hi)).
    rewrite (load_table L Hwf (v_fixed v) ms a t Hti Hel').
    destruct (place_len t a _ Hti) as [Hx Hc].
    pose proof (destruct_fields_died L (fst (place L (cnts_of t) a)) (cnts_of t) (bidn (v_bid v)) ms Hx Hc) as H.
    destruct (destruct_fields L (combine (fst (place L (cnts_of t) a)) (cnts_of t)) (bidn (v_bid v)) ms) as [m' evs].
    cbn [snd] in *. exact H.
  Qed.

  Lemma skipn_nth_cons {A} (d : A) : forall i (l : list A), (i < length l)%nat -> skipn i l = nth i l d :: skipn (S i) l.
  Proof.
    induction i as [|i IH]; intros [|x l] Hl; cbn [length] in Hl; try lia; [reflexivity|].
    cbn [skipn nth]. apply IH. lia.
  Qed.

  Lemma destruct_range_evs v l offs : RepO L v l offs -> forall n i ms,
    (i + n <= length l)%nat ->
    (forall x, nth i offs 0 <= x -> ms x = v_mem v x) ->
    keep died (snd (destruct_range L (set_mem v ms) (Z.of_nat i) n)) =
      tag (bidn (v_bid v)) (vobjs ntd L (firstn n (skipn i offs)) (firstn n (skipn i l))) /\
    keep born (snd (destruct_range L (set_mem v ms) (Z.of_nat i) n)) = [].
  Proof.
    intros R. pose proof (r_order _ _ _ _ R) as Hord. pose proof (eo_length _ _ _ _ _ Hord) as Hlen.
    induction n as [|n IH]; intros i ms Hin Hms; [split; reflexivity|].
    cbn [destruct_range].
    destruct (destruct_elem_mem L Hwf v l offs i ms R ltac:(lia) Hms) as (m1 & E1 & F1).
    destruct (destruct_elem_evs v l offs i ms R ltac:(lia) Hms) as [D1 B1].
    destruct (destruct_elem L (set_mem v ms) (Z.of_nat i)) as [v1 e1]. cbn [fst snd] in *. subst v1.
    replace (Z.of_nat i + 1) with (Z.of_nat (S i)) by lia.
    rewrite (skipn_nth_cons 0 i offs) by lia. rewrite (skipn_nth_cons ([] : tuple) i l) by lia.
    cbn [firstn vobjs]. rewrite tag_app.
    destruct (Nat.eq_dec n 0) as [->|Hn0].
    - cbn [destruct_range firstn vobjs snd]. cbn [tag map]. rewrite !app_nil_r. split; assumption.
    - assert (Hnext : elem_end L (nth i offs 0) (nth i l []) <= nth (S i) offs 0).
      { destruct (eo_end_firstn_le L (S i) 0 offs l _ Hord ltac:(lia)) as [Hle _].
        rewrite eo_end_firstn_S in Hle by lia. exact Hle. }
      pose proof (elem_end_ge L Hwf (nth i offs 0) (nth i l [])) as Hge.
      destruct (IH (S i) m1 ltac:(lia)) as [D2 B2].
      { intros x Hx. rewrite F1 by lia. apply Hms. lia. }
      destruct (destruct_range L (set_mem v m1) (Z.of_nat (S i)) n) as [v2 e2]. cbn [fst snd] in *.
      rewrite !keep_app, D1, D2, B1, B2. split; reflexivity.
  Qed.

  (* relocation: every object of every element is constructed once in the new block, at its
     old offset; nothing is destroyed by the relocation itself *)
  Lemma relocate_elems_evs bid v l offs : RepO L v l offs ->
    forall n k ms m,
    (k + n = length l)%nat ->
    (forall x, eo_end L 0 (firstn k offs) (firstn k l) <= x -> ms x = v_mem v x) ->
    (forall x, 0 <= x < dend L v -> m x = v_mem v x) ->
    keep born (snd (relocate_elems true L (set_mem v ms) bid m (Z.of_nat k) n)) =
      tag bid (vobjs (ntc true) L (skipn k offs) (skipn k l)) /\
    keep died (snd (relocate_elems true L (set_mem v ms) bid m (Z.of_nat k) n)) = [].
  Proof.
    intros R.
    pose proof (r_order _ _ _ _ R) as Hord. pose proof (eo_length _ _ _ _ _ Hord) as Hlen.
    induction n as [|n IH]; intros k ms m Hk Hms Hm.
    { cbn [relocate_elems snd keep]. rewrite !skipn_all2 by lia. split; reflexivity. }
    cbn [relocate_elems].
    assert (Hkl : (k < length l)%nat) by lia.
    destruct (nth_elem_at L v l offs k R Hkl) as [Hel Htk].
    set (a := nth k offs 0) in *. set (t := nth k l []) in *.
    destruct (eo_end_firstn_le L k 0 offs l _ Hord ltac:(lia)) as [Hle HaS]. fold a in Hle, HaS.
    pose proof (eo_end_le L Hwf _ _ _ _ (eo_firstn L k _ _ _ _ Hord)) as [Hlo0 _].
    assert (Hel' : elem_at L ms a t).
    { eapply (elem_at_ext L Hwf (v_mem v) ms a t); eauto. intros y Hy. apply Hms. lia. }
    change (v_fixed (set_mem v ms)) with (v_fixed v). change (v_mem (set_mem v ms)) with ms.
    change (v_bid (set_mem v ms)) with (v_bid v).
    replace (eaddr L (set_mem v ms) (Z.of_nat k)) with a
      by (symmetry; change (eaddr L (set_mem v ms) (Z.of_nat k)) with (eaddr L v (Z.of_nat k)); apply (rep_eaddr L v l offs k R Hkl)).
    rewrite (load_table L Hwf (v_fixed v) ms a t Htk Hel').
    pose proof (place_ordered L (cnts_of t) a Hwf (tuple_ok_cnt_ok L _ _ t Htk) ltac:(lia) HaS) as Hpo.
    fold (elem_end L a t) in Hpo.
    pose proof (eo_bounds L Hwf _ _ _ _ Hord) as Hb.
    assert (Hin : elem_end L a t <= dend L v).
    { pose proof (Forall2_nth_ _ offs l 0 [] k Hb ltac:(lia)) as Hk'. cbv beta in Hk'. fold a t in Hk'. tauto. }
    pose proof (relocate_fields_spec (v_mem v) true (bidn (v_bid v)) bid L (cnts_of t) (fst (place L (cnts_of t) a)) ms m a (elem_end L a t)
                  HF (cnts_of_nonneg t) Hpo ltac:(intros y Hy; apply Hms; lia) ltac:(intros y Hy; apply Hm; lia)) as Hrf.
    cbv zeta in Hrf.
    destruct (place_len t a _ Htk) as [Hx Hc].
    pose proof (relocate_fields_born true (bidn (v_bid v)) bid L (fst (place L (cnts_of t) a)) (cnts_of t) ms m Hx Hc (cnts_of_nonneg t)) as Hev.
    destruct (relocate_fields true L (combine (fst (place L (cnts_of t) a)) (cnts_of t)) (bidn (v_bid v)) bid ms m 0) as [[ms1 m1] e1].
    cbn [fst snd] in Hrf, Hev. destruct Hrf as (F1 & F2 & _). destruct Hev as [V1 V2].
    change (set_mem (set_mem v ms) ms1) with (set_mem v ms1).
    replace (Z.of_nat k + 1) with (Z.of_nat (S k)) by lia.
    specialize (IH (S k) ms1 m1 ltac:(lia)).
    assert (Hms1 : forall y, eo_end L 0 (firstn (S k) offs) (firstn (S k) l) <= y -> ms1 y = v_mem v y).
    { intros y Hy. rewrite eo_end_firstn_S in Hy by lia. fold a t in Hy. apply F1. exact Hy. }
    specialize (IH Hms1 ltac:(intros y Hy; rewrite F2; apply Hm; exact Hy)).
    destruct (relocate_elems true L (set_mem v ms1) bid m1 (Z.of_nat (S k)) n) as [[s2 m2] e2]. cbn [fst snd] in *.
    destruct IH as [I1 I2].
    rewrite (skipn_nth_cons 0 k offs) by lia. rewrite (skipn_nth_cons ([] : tuple) k l) by lia. fold a t.
    cbn [vobjs]. rewrite tag_app, !keep_app, V1, V2, I1, I2. split; reflexivity.
  Qed.

  Definition etab (a : Z) (t : tuple) : list (Z * Z) := combine (fst (place L (cnts_of t) a)) (cnts_of t).

  Lemma etab_counts a t : Forall (fun ac => 0 <= snd ac) (etab a t).
  Proof.
    unfold etab. apply Forall_forall. intros [x c] Hin. apply in_combine_r in Hin. cbn [snd].
    pose proof (cnts_of_nonneg t) as H. rewrite Forall_forall in H. apply H. exact Hin.
  Qed.

  (* element j ends in front of element k (j < k) *)
  Lemma elem_before v l offs j k : RepO L v l offs -> (j < k)%nat -> (k < length l)%nat ->
    elem_end L (nth j offs 0) (nth j l []) <= nth k offs 0.
  Proof.
    intros R Hjk Hk. pose proof (r_order _ _ _ _ R) as Hord. pose proof (eo_length _ _ _ _ _ Hord) as Hlen.
    destruct (eo_end_firstn_le L k 0 offs l _ Hord ltac:(lia)) as [Hle _].
    pose proof (eo_bounds L Hwf _ _ _ _ (eo_firstn L k _ _ _ _ Hord)) as Hb.
    pose proof (Forall2_nth_ _ _ _ 0 ([] : tuple) j Hb ltac:(rewrite firstn_length; lia)) as Hj. cbv beta in Hj.
    rewrite (nth_firstn_ offs k j 0) in Hj by lia. rewrite (nth_firstn_ l k j ([] : tuple)) in Hj by lia.
    destruct Hj as (_ & _ & Hj). lia.
  Qed.

  (* after the relocation the source still holds every field of a trivially constructible
     type of every element *)
  Lemma relocate_elems_src bid v l offs : RepO L v l offs ->
    forall n k ms m,
    (k + n = length l)%nat ->
    (forall x, eo_end L 0 (firstn k offs) (firstn k l) <= x -> ms x = v_mem v x) ->
    (forall j, (j < k)%nat -> agree L (etab (nth j offs 0) (nth j l [])) (v_mem v) ms) ->
    exists msf, fst (fst (relocate_elems true L (set_mem v ms) bid m (Z.of_nat k) n)) = set_mem v msf /\
      forall j, (j < length l)%nat -> agree L (etab (nth j offs 0) (nth j l [])) (v_mem v) msf.
  Proof.
    intros R.
    pose proof (r_order _ _ _ _ R) as Hord. pose proof (eo_length _ _ _ _ _ Hord) as Hlen.
    induction n as [|n IH]; intros k ms m Hk Hms Hag.
    { cbn [relocate_elems fst]. exists ms. split; [reflexivity|]. intros j Hj. apply Hag. lia. }
    cbn [relocate_elems].
    assert (Hkl : (k < length l)%nat) by lia.
    destruct (nth_elem_at L v l offs k R Hkl) as [Hel Htk].
    set (a := nth k offs 0) in *. set (t := nth k l []) in *.
    destruct (eo_end_firstn_le L k 0 offs l _ Hord ltac:(lia)) as [Hle HaS]. fold a in Hle, HaS.
    pose proof (eo_end_le L Hwf _ _ _ _ (eo_firstn L k _ _ _ _ Hord)) as [Hlo0 _].
    assert (Hel' : elem_at L ms a t).
    { eapply (elem_at_ext L Hwf (v_mem v) ms a t); eauto. intros y Hy. apply Hms. lia. }
    change (v_fixed (set_mem v ms)) with (v_fixed v). change (v_mem (set_mem v ms)) with ms.
    change (v_bid (set_mem v ms)) with (v_bid v).
    replace (eaddr L (set_mem v ms) (Z.of_nat k)) with a
      by (symmetry; change (eaddr L (set_mem v ms) (Z.of_nat k)) with (eaddr L v (Z.of_nat k)); apply (rep_eaddr L v l offs k R Hkl)).
    rewrite (load_table L Hwf (v_fixed v) ms a t Htk Hel').
    pose proof (place_ordered L (cnts_of t) a Hwf (tuple_ok_cnt_ok L _ _ t Htk) ltac:(lia) HaS) as Hpo.
    fold (elem_end L a t) in Hpo.
    pose proof (relocate_fields_src_frame (bidn (v_bid v)) bid L (cnts_of t) (fst (place L (cnts_of t) a)) ms m a (elem_end L a t)
                  HF (cnts_of_nonneg t) Hpo) as Hsf. cbv zeta in Hsf.
    destruct (relocate_fields true L (combine (fst (place L (cnts_of t) a)) (cnts_of t)) (bidn (v_bid v)) bid ms m 0) as [[ms1 m1] e1].
    cbn [fst] in Hsf. destruct Hsf as [Sfr Sag].
    change (set_mem (set_mem v ms) ms1) with (set_mem v ms1).
    replace (Z.of_nat k + 1) with (Z.of_nat (S k)) by lia.
    pose proof (elem_end_ge L Hwf a t) as Hge.
    destruct (IH (S k) ms1 m1 ltac:(lia)) as (msf & E & F).
    - intros y Hy. rewrite eo_end_firstn_S in Hy by lia. fold a t in Hy. rewrite Sfr by lia. apply Hms. lia.
    - intros j Hj. destruct (Nat.eq_dec j k) as [->|Hne].
      + fold a t. unfold etab.
        apply (agree_base L (cnts_of t) (fst (place L (cnts_of t) a)) (v_mem v) ms ms1 a (elem_end L a t) HF (cnts_of_nonneg t) Hpo); [|exact Sag].
        intros y Hy. apply Hms. lia.
      + assert (Hjk : (j < k)%nat) by lia.
        destruct (nth_elem_at L v l offs j R ltac:(lia)) as [_ Htj].
        destruct (eo_end_firstn_le L j 0 offs l _ Hord ltac:(lia)) as [Hlej HaSj].
        pose proof (eo_end_le L Hwf _ _ _ _ (eo_firstn L j _ _ _ _ Hord)) as [Hlo0j _].
        pose proof (place_ordered L (cnts_of (nth j l [])) (nth j offs 0) Hwf (tuple_ok_cnt_ok L _ _ _ Htj) ltac:(lia) HaSj) as Hpoj.
        fold (elem_end L (nth j offs 0) (nth j l [])) in Hpoj.
        pose proof (elem_before v l offs j k R Hjk Hkl) as Hbef. fold a in Hbef.
        unfold etab.
        apply (agree_frame L _ _ (v_mem v) ms ms1 _ _ HF (cnts_of_nonneg _) Hpoj); [|exact (Hag j Hjk)].
        intros y Hy. apply Sfr. lia.
    - destruct (relocate_elems true L (set_mem v ms1) bid m1 (Z.of_nat (S k)) n) as [[s2 m2] e2]. cbn [fst] in *.
      exists msf. split; [exact E|exact F].
  Qed.

  (* destroying a range of elements whose field tables the load path still finds *)
  Lemma destruct_range_evs_tab v l offs : RepO L v l offs -> forall n i ms,
    (i + n <= length l)%nat ->
    (forall j, (i <= j < i + n)%nat -> fst (load L (v_fixed v) ms (nth j offs 0)) = etab (nth j offs 0) (nth j l [])) ->
    keep died (snd (destruct_range L (set_mem v ms) (Z.of_nat i) n)) =
      tag (bidn (v_bid v)) (vobjs ntd L (firstn n (skipn i offs)) (firstn n (skipn i l))) /\
    keep born (snd (destruct_range L (set_mem v ms) (Z.of_nat i) n)) = [].
  Proof.
    intros R. pose proof (r_order _ _ _ _ R) as Hord. pose proof (eo_length _ _ _ _ _ Hord) as Hlen.
    induction n as [|n IH]; intros i ms Hin Htab; [split; reflexivity|].
    cbn [destruct_range].
    rewrite (skipn_nth_cons 0 i offs) by lia. rewrite (skipn_nth_cons ([] : tuple) i l) by lia.
    cbn [firstn vobjs]. rewrite tag_app.
    destruct (nth_elem_at L v l offs i R ltac:(lia)) as [_ Hti].
    set (a := nth i offs 0) in *. set (t := nth i l []) in *.
    destruct (eo_end_firstn_le L i 0 offs l _ Hord ltac:(lia)) as [Hle HaS]. fold a in Hle, HaS.
    pose proof (eo_end_le L Hwf _ _ _ _ (eo_firstn L i _ _ _ _ Hord)) as [Hlo0 _].
    pose proof (place_ordered L (cnts_of t) a Hwf (tuple_ok_cnt_ok L _ _ t Hti) ltac:(lia) HaS) as Hpo.
    fold (elem_end L a t) in Hpo.
    destruct (place_len t a _ Hti) as [Hx Hc].
    (* this element *)
    unfold destruct_elem at 1 2.
    destruct (all_dtriv L) eqn:Hd.
    - (* nothing is destroyed at all *)
      assert (Hnone : forall a0 t0, eobjs ntd L a0 t0 = []) by (intros; unfold eobjs; apply obj_addrs_none; exact Hd).
      replace (Z.of_nat i + 1) with (Z.of_nat (S i)) by lia.
      destruct (Nat.eq_dec n 0) as [->|Hn0].
      + cbn [destruct_range firstn vobjs snd app keep]. rewrite Hnone. split; reflexivity.
      + destruct (IH (S i) ms ltac:(lia)) as [D2 B2].
        { intros j Hj. apply Htab. lia. }
        destruct (destruct_range L (set_mem v ms) (Z.of_nat (S i)) n) as [v2 e2]. cbn [snd app] in *.
        rewrite Hnone. cbn [tag map app]. split; assumption.
    - change (v_fixed (set_mem v ms)) with (v_fixed v). change (v_mem (set_mem v ms)) with ms.
      change (v_bid (set_mem v ms)) with (v_bid v).
      replace (eaddr L (set_mem v ms) (Z.of_nat i)) with a
        by (symmetry; change (eaddr L (set_mem v ms) (Z.of_nat i)) with (eaddr L v (Z.of_nat i)); apply (rep_eaddr L v l offs i R ltac:(lia))).
      pose proof (Htab i ltac:(lia)) as Htabi. fold a t in Htabi. rewrite Htabi. unfold etab.
      pose proof (destruct_fields_died L (fst (place L (cnts_of t) a)) (cnts_of t) (bidn (v_bid v)) ms Hx Hc) as Hev.
      pose proof (fun y => destruct_fields_frame L (cnts_of t) (fst (place L (cnts_of t) a)) (bidn (v_bid v)) ms a (elem_end L a t) y
                             HF (cnts_of_nonneg t) Hpo) as Hfr.
      destruct (destruct_fields L (combine (fst (place L (cnts_of t) a)) (cnts_of t)) (bidn (v_bid v)) ms) as [m1 e1].
      cbn [fst snd] in *. destruct Hev as [D1 B1].
      change (set_mem (set_mem v ms) m1) with (set_mem v m1).
      replace (Z.of_nat i + 1) with (Z.of_nat (S i)) by lia.
      destruct (Nat.eq_dec n 0) as [->|Hn0].
      + cbn [destruct_range firstn vobjs snd]. cbn [tag map]. rewrite !app_nil_r. split; assumption.
      + destruct (IH (S i) m1 ltac:(lia)) as [D2 B2].
        { intros j Hj. rewrite <- (Htab j ltac:(lia)). unfold load. f_equal.
          apply load_from_ext_ge; auto.
          - intros x Hx0. apply Hfr. pose proof (elem_before v l offs i j R ltac:(lia) ltac:(lia)) as Hb. fold a t in Hb. lia.
          - fold (load L (v_fixed v) ms (nth j offs 0)). rewrite (Htab j ltac:(lia)). apply etab_counts. }
        destruct (destruct_range L (set_mem v m1) (Z.of_nat (S i)) n) as [v2 e2]. cbn [fst snd] in *.
        rewrite !keep_app, D1, D2, B1, B2. split; reflexivity.
  Qed.

  Lemma vobjs_none sel : forallb (fun p => negb (sel p)) L = true -> forall offs l, vobjs sel L offs l = [].
  Proof.
    intros H. induction offs as [|a offs IH]; intros [|t l]; cbn [vobjs]; try reflexivity.
    unfold eobjs. rewrite obj_addrs_none by exact H. apply IH.
  Qed.

  (* the field tables survive in the moved-from source *)
  Lemma tables_after_relocation v l offs msf : RepO L v l offs -> cft L = true ->
    (forall j, (j < length l)%nat -> agree L (etab (nth j offs 0) (nth j l [])) (v_mem v) msf) ->
    forall j, (j < length l)%nat ->
      fst (load L (v_fixed v) msf (nth j offs 0)) = etab (nth j offs 0) (nth j l []).
  Proof.
    intros R Hcft Hag j Hj.
    destruct (nth_elem_at L v l offs j R Hj) as [Hel Htj].
    unfold etab. rewrite <- (load_table L Hwf (v_fixed v) (v_mem v) _ _ Htj Hel).
    unfold load. f_equal.
    apply (load_from_agree L (prevs L) _ (v_mem v) msf _ 0 0 false HF); auto.
    - apply wf_plist_varying; auto.
    - destruct L; auto.
    - fold (load L (v_fixed v) (v_mem v) (nth j offs 0)).
      rewrite (load_table L Hwf (v_fixed v) (v_mem v) _ _ Htj Hel). apply Hag. exact Hj.
  Qed.

  (* insert_into: every object of every element is constructed once in the new block; with
     IsDestruct every object of the source is destroyed once *)
  Lemma insert_into_evs destr v l offs bid junk : RepO L v l offs -> cft L = true ->
    keep born (snd (insert_into true destr L v bid junk)) = tag bid (vobjs (ntc true) L offs l) /\
    keep died (snd (insert_into true destr L v bid junk)) =
      (if destr then tag (bidn (v_bid v)) (vobjs ntd L offs l) else []).
  Proof.
    intros R Hcft. unfold insert_into.
    pose proof (r_order _ _ _ _ R) as Hord. pose proof (eo_length _ _ _ _ _ Hord) as Hlen.
    assert (Esm : set_mem v (v_mem v) = v) by (destruct v; reflexivity).
    assert (Hm0 : forall y, 0 <= y < dend L v -> mcopy (v_mem v) 0 junk 0 (dend L v) y = v_mem v y).
    { intros y Hy. rewrite mcopy_in by lia. f_equal. lia. }
    destruct (all_ctriv _ L) eqn:Hct; destruct (all_dtriv L) eqn:Hdt; cbn [andb orb negb].
    - (* nothing to construct, nothing to destroy *)
      rewrite orb_true_r. cbn [snd keep born died].
      rewrite (vobjs_none (ntc true) Hct), (vobjs_none ntd Hdt). destruct destr; split; reflexivity.
    - rewrite orb_false_r. destruct destr; cbn [negb andb].
      + (* no relocation, the source is destroyed in place *)
        rewrite (rep_vsize L v l offs R), Nat2Z.id.
        pose proof (destruct_range_evs_tab v l offs R (length l) 0 (v_mem v) ltac:(lia)) as Hd.
        rewrite Esm in Hd. change (Z.of_nat 0) with 0 in Hd.
        destruct Hd as [D B].
        { intros j Hj. destruct (nth_elem_at L v l offs j R ltac:(lia)) as [Hel Htj].
          apply (load_table L Hwf); auto. }
        destruct (destruct_range L v 0 (length l)) as [s2 e2]. cbn [snd] in *.
        cbn [keep born died app]. rewrite ?keep_app, D, B. cbn [keep born died app].
        rewrite (vobjs_none (ntc true) Hct). cbn [skipn]. rewrite (firstn_all l). rewrite <- Hlen. rewrite (firstn_all offs).
        split; reflexivity.
      + cbn [snd keep born died]. rewrite (vobjs_none (ntc true) Hct). split; reflexivity.
    - (* relocation, nothing to destroy *)
      rewrite andb_false_r.
      rewrite (rep_vsize L v l offs R), Nat2Z.id.
      pose proof (relocate_elems_evs bid v l offs R (length l) 0 (v_mem v) (mcopy (v_mem v) 0 junk 0 (dend L v))
                    ltac:(lia) ltac:(intros; reflexivity) Hm0) as Hre.
      rewrite Esm in Hre. change (Z.of_nat 0) with 0 in Hre. cbn [skipn] in Hre.
      destruct (relocate_elems true L v bid (mcopy (v_mem v) 0 junk 0 (dend L v)) 0 (length l)) as [[s1 m1] e1].
      cbn [snd] in *. destruct Hre as [B1 D1].
      cbn [keep born died app]. rewrite ?app_nil_r, B1, D1. rewrite (vobjs_none ntd Hdt). destruct destr; split; reflexivity.
    - (* relocation, then the moved-from source is destroyed *)
      rewrite (rep_vsize L v l offs R), Nat2Z.id.
      pose proof (relocate_elems_evs bid v l offs R (length l) 0 (v_mem v) (mcopy (v_mem v) 0 junk 0 (dend L v))
                    ltac:(lia) ltac:(intros; reflexivity) Hm0) as Hre.
      destruct (relocate_elems_src bid v l offs R (length l) 0 (v_mem v) (mcopy (v_mem v) 0 junk 0 (dend L v))
                  ltac:(lia) ltac:(intros; reflexivity) ltac:(intros; lia)) as (msf & Esrc & Hag).
      rewrite Esm in Hre, Esrc. change (Z.of_nat 0) with 0 in Hre, Esrc. cbn [skipn] in Hre.
      destruct (relocate_elems true L v bid (mcopy (v_mem v) 0 junk 0 (dend L v)) 0 (length l)) as [[s1 m1] e1].
      cbn [fst snd] in *. subst s1. destruct Hre as [B1 D1].
      destruct destr; cbn [andb].
      + change (vsize L (set_mem v msf)) with (vsize L v). rewrite (rep_vsize L v l offs R), Nat2Z.id.
        pose proof (destruct_range_evs_tab v l offs R (length l) 0 msf ltac:(lia)) as Hd.
        change (Z.of_nat 0) with 0 in Hd.
        destruct Hd as [D B].
        { intros j Hj. apply (tables_after_relocation v l offs msf R Hcft Hag). lia. }
        destruct (destruct_range L (set_mem v msf) 0 (length l)) as [s2 e2]. cbn [snd] in *.
        cbn [keep born died app]. rewrite ?keep_app, B1, D1, D, B. cbn [app]. rewrite ?app_nil_r.
        cbn [skipn]. rewrite (firstn_all l). rewrite <- Hlen. rewrite (firstn_all offs).
        split; reflexivity.
      + cbn [snd keep born died app]. rewrite ?app_nil_r, B1, D1. split; reflexivity.
  Qed.

  (* ---------- canonical positions: tight packing makes them a function of the list ---------- *)
  Fixpoint cpos (lo : Z) (l : list tuple) : list Z :=
    match l with
    | [] => []
    | t :: r => let a := first_align L lo in a :: cpos (elem_end L a t) r
    end.

  Lemma tight_cpos : forall offs l lo hi, elems_tight L lo offs l hi -> offs = cpos lo l.
  Proof.
    induction offs as [|a offs IH]; intros [|t l] lo hi H; cbn [elems_tight] in H; try contradiction; [reflexivity|].
    destruct H as [-> H]. cbn [cpos]. f_equal. eapply IH; eauto.
  Qed.

  Lemma rep_cpos v l offs : RepO L v l offs -> offs = cpos 0 l.
  Proof. intros R. eapply tight_cpos. exact (r_tight _ _ _ _ R). Qed.

  Lemma et_hi : forall offs l lo hi, elems_tight L lo offs l hi ->
    hi = eo_end L lo offs l \/ hi = first_align L (eo_end L lo offs l).
  Proof.
    induction offs as [|a offs IH]; intros [|t l] lo hi H; cbn [elems_tight eo_end] in *; try contradiction; [exact H|].
    destruct H as [_ H]. eapply IH; eauto.
  Qed.

  Lemma cpos_app : forall l1 lo l2, cpos lo (l1 ++ l2) = cpos lo l1 ++ cpos (eo_end L lo (cpos lo l1) l1) l2.
  Proof.
    induction l1 as [|t l1 IH]; intros lo l2; [reflexivity|].
    cbn [app cpos eo_end]. f_equal. apply IH.
  Qed.

  Lemma cpos_length : forall l lo, length (cpos lo l) = length l.
  Proof. induction l as [|t l IH]; intros lo; cbn [cpos length]; [reflexivity|]. f_equal. apply IH. Qed.

  Lemma cpos_firstn k : forall l lo, cpos lo (firstn k l) = firstn k (cpos lo l).
  Proof.
    induction k as [|k IH]; intros [|t l] lo; try reflexivity. cbn [firstn cpos]. f_equal. apply IH.
  Qed.

  (* where emplace_back puts the new element *)
  Lemma emplace_position v l offs : RepO L v l offs ->
    (if has_varying L then first_align L (v_last v) else v_stride v * v_count v) =
      first_align L (eo_end L 0 offs l).
  Proof.
    intros R. pose proof (r_order _ _ _ _ R) as Hord. pose proof (r_loc _ _ _ _ R) as Hloc.
    assert (Hal : (SA L | first_align L (eo_end L 0 offs l))).
    { eapply eo_end_first_align; [exact Hwf|exact Hord| |lia|].
      - eapply Forall_impl; [|exact (r_tuples _ _ _ _ R)]. intros u Hu. eapply tuple_ok_cnt_ok; eauto.
      - rewrite first_align_aligned; auto; apply Z.divide_0_r. }
    destruct (et_hi _ _ _ _ (r_tight _ _ _ _ R)) as [Hd|Hd]; unfold dend in Hd; destruct (has_varying L) eqn:Hv.
    - rewrite Hd. reflexivity.
    - rewrite Hd. symmetry. apply first_align_aligned; auto. rewrite <- Hd.
      destruct Hloc as (_ & _ & (_ & HsS & _)). apply Z.divide_mul_l. exact HsS.
    - rewrite Hd. apply first_align_aligned; auto.
    - exact Hd.
  Qed.

  (* ---------- one step with fresh block ids ---------- *)
  Definition lstep (junk : mem) (st : vec * nat) (o : sop) : (vec * nat) * list ev :=
    let '(v, nb) := st in
    match o with
    | SEmplace t => let r := emplace_back L v t in ((fst r, nb), snd r)
    | SPopBack => let r := pop_back L v in ((fst r, nb), snd r)
    | SErase i => let r := erase L v i in ((fst r, nb), snd r)
    | SEraseRange i j => let r := erase_range L v i j in ((fst r, nb), snd r)
    | SClear => let r := clear L v in ((fst r, nb), snd r)
    | SReserve n b => let r := reserve L v n b junk nb (S nb) in ((fst r, S (S nb)), snd r)
    end.

  (* erase only up to the end (see NtRefine.nt_ok) *)
  Definition lt_ok (s : svec) (o : sop) : Prop :=
    match o with
    | SErase i => i + 1 = Z.of_nat (length (s_elems s))
    | SEraseRange i j => j = Z.of_nat (length (s_elems s))
    | _ => True
    end.

  Hypothesis Hsame : forall mv p, In p L -> ntc mv p = ntd p.
  Hypothesis Hcft : cft L = true.

  Lemma obj_addrs_same mv : forall L' xs cnts, (forall p, In p L' -> ntc mv p = ntd p) ->
    obj_addrs (ntc mv) L' xs cnts = obj_addrs ntd L' xs cnts.
  Proof.
    induction L' as [|p L' IH]; intros xs cnts H; [reflexivity|].
    destruct xs; [reflexivity|]. destruct cnts; [reflexivity|]. cbn [obj_addrs].
    rewrite (H p (or_introl eq_refl)). f_equal. apply IH. intros q Hq. apply H. right; exact Hq.
  Qed.

  Lemma vobjs_same mv : forall offs l, vobjs (ntc mv) L offs l = vobjs ntd L offs l.
  Proof.
    induction offs as [|a offs IH]; intros [|t l]; cbn [vobjs]; try reflexivity.
    unfold eobjs. rewrite (obj_addrs_same mv L _ _ (Hsame mv)). f_equal. apply IH.
  Qed.

  Lemma eobjs_same mv mv' a t : eobjs (ntc mv) L a t = eobjs (ntc mv') L a t.
  Proof. unfold eobjs. rewrite (obj_addrs_same mv L _ _ (Hsame mv)), (obj_addrs_same mv' L _ _ (Hsame mv')). reflexivity. Qed.

  (* the objects the vector holds: every object of every element, in its current block *)
  Definition live (v : vec) (l : list tuple) : list obj := tag (bidn (v_bid v)) (vobjs (ntc true) L (cpos 0 l) l).

  Lemma vobjs_split sel k offs l : length offs = length l ->
    vobjs sel L offs l = vobjs sel L (firstn k offs) (firstn k l) ++ vobjs sel L (skipn k offs) (skipn k l).
  Proof.
    intros Hl. rewrite <- (firstn_skipn k offs) at 1. rewrite <- (firstn_skipn k l) at 1.
    apply vobjs_app. rewrite !firstn_length. lia.
  Qed.

  Lemma resize_bid v n : v_bid (resize L v n) = v_bid v.
  Proof. unfold resize. destruct (has_varying L); [destruct (n <? _)|]; reflexivity. Qed.

  Lemma born_died_allocs a u n bid : keep born [EAlloc a u n bid] = [] /\ keep died [EAlloc a u n bid] = [].
  Proof. split; reflexivity. Qed.
  Lemma keep_dealloc_tbl v : keep born (dealloc_tbl L v) = [] /\ keep died (dealloc_tbl L v) = [].
  Proof. unfold dealloc_tbl. destruct (t_bid (v_tbl v)); split; reflexivity. Qed.
  Lemma keep_dealloc_mem v : keep born (dealloc_mem L v) = [] /\ keep died (dealloc_mem L v) = [].
  Proof. unfold dealloc_mem. destruct (v_bid v); split; reflexivity. Qed.

  (* removing the elements from index k on: what is destroyed is what was live there *)
  Lemma live_drop v l offs k : RepO L v l offs -> (k <= length l)%nat ->
    Permutation (live v l) (tag (bidn (v_bid v)) (vobjs ntd L (skipn k offs) (skipn k l)) ++
                            tag (bidn (v_bid v)) (vobjs (ntc true) L (cpos 0 (firstn k l)) (firstn k l))).
  Proof.
    intros R Hk. unfold live. rewrite <- (rep_cpos v l offs R).
    pose proof (eo_length _ _ _ _ _ (r_order _ _ _ _ R)) as Hlen.
    rewrite (vobjs_split (ntc true) k offs l Hlen), tag_app. rewrite cpos_firstn, <- (rep_cpos v l offs R).
    rewrite <- (vobjs_same true). apply Permutation_app_comm.
  Qed.

  Theorem lstep_balance junk v nb s o offs :
    RepO L v (s_elems s) offs -> v_cap v = s_cap s -> svalid L (fixed_counts L (v_fixed v)) s o -> lt_ok s o ->
    (exists b0, v_bid v = Some b0 /\ (b0 < nb)%nat) ->
    let v' := fst (fst (lstep junk (v, nb) o)) in
    let nb' := snd (fst (lstep junk (v, nb) o)) in
    let evs := snd (lstep junk (v, nb) o) in
    Rep L v' (s_elems (sstep s o)) /\ v_cap v' = s_cap (sstep s o) /\ v_fixed v' = v_fixed v /\
    (exists b0, v_bid v' = Some b0 /\ (b0 < nb')%nat) /\
    Permutation (live v (s_elems s) ++ keep born evs) (keep died evs ++ live v' (s_elems (sstep s o))).
  Proof.
    intros R Hc Hv Hlt Hb. cbv zeta.
    assert (Esm : set_mem v (v_mem v) = v) by (destruct v; reflexivity).
    pose proof (rep_vsize L v _ offs R) as Hsz.
    pose proof (eo_length _ _ _ _ _ (r_order _ _ _ _ R)) as Hlen.
    destruct o as [t| |i|i j| |n b]; cbn [lstep fst snd].
    - (* emplace_back *)
      destruct (vstep_rep_nt L Hwf junk v s (SEmplace t) (ex_intro _ offs R) Hc Hv (or_intror I)) as (R' & Hc' & Hf').
      cbn [vstep sstep s_elems s_cap svalid] in *. destruct Hv as [Hcap Ht].
      split; [exact R'|]. split; [exact Hc'|]. split; [exact Hf'|].
      destruct (emplace_evs v t Ht) as [B D]. cbv zeta in B. rewrite (emplace_position v _ offs R) in B.
      rewrite (eobjs_same false true) in B.
      assert (Hbid : v_bid (fst (emplace_back L v t)) = v_bid v).
      { unfold emplace_back. destruct (has_varying L); destruct (store _ _ _ _ _) as [[m evs] e]; reflexivity. }
      split; [rewrite Hbid; exact Hb|].
      rewrite B, D. cbn [app]. unfold live. rewrite Hbid.
      rewrite cpos_app. rewrite <- (rep_cpos v _ offs R).
      rewrite vobjs_app by (rewrite Hlen; reflexivity). cbn [cpos vobjs]. rewrite app_nil_r, tag_app. apply Permutation_refl.
    - (* pop_back *)
      destruct (vstep_rep_nt L Hwf junk v s SPopBack (ex_intro _ offs R) Hc Hv (or_intror I)) as (R' & Hc' & Hf').
      cbn [vstep sstep s_elems s_cap svalid] in *.
      split; [exact R'|]. split; [exact Hc'|]. split; [exact Hf'|].
      assert (Hn : (0 < length (s_elems s))%nat) by (destruct (s_elems s); [congruence|cbn; lia]).
      unfold pop_back. rewrite Hsz.
      replace (Z.of_nat (length (s_elems s)) - 1) with (Z.of_nat (Init.Nat.pred (length (s_elems s)))) by lia.
      set (k := Init.Nat.pred (length (s_elems s))).
      destruct (destruct_elem_mem L Hwf v _ offs k (v_mem v) R ltac:(unfold k; lia) ltac:(auto)) as (m' & E & _).
      destruct (destruct_elem_evs v _ offs k (v_mem v) R ltac:(unfold k; lia) ltac:(auto)) as [D B].
      rewrite Esm in E, D, B.
      destruct (destruct_elem L v (Z.of_nat k)) as [v1 e1]. cbn [fst snd] in *. subst v1.
      rewrite resize_bid. cbn [v_bid set_mem]. split; [exact Hb|].
      rewrite D, B, app_nil_r. rewrite removelast_firstn_len. fold k.
      pose proof (live_drop v _ offs k R ltac:(unfold k; lia)) as Hp.
      rewrite (skipn_nth_cons 0 k offs) in Hp by (unfold k; lia).
      rewrite (skipn_nth_cons ([] : tuple) k (s_elems s)) in Hp by (unfold k; lia).
      rewrite !skipn_all2 in Hp by (unfold k; lia). cbn [vobjs] in Hp. rewrite app_nil_r in Hp.
      unfold live at 2. cbn [v_bid]. rewrite resize_bid. cbn [v_bid set_mem]. exact Hp.
    - (* erase of the last element *)
      destruct (vstep_rep_nt L Hwf junk v s (SErase i) (ex_intro _ offs R) Hc Hv (or_intror Hlt)) as (R' & Hc' & Hf').
      cbn [vstep sstep s_elems s_cap svalid lt_ok] in *.
      split; [exact R'|]. split; [exact Hc'|]. split; [exact Hf'|].
      assert (Hi : i = Z.of_nat (Init.Nat.pred (length (s_elems s)))) by lia.
      set (k := Init.Nat.pred (length (s_elems s))) in *.
      assert (Hlist : remove_range (Z.to_nat i) (S (Z.to_nat i)) (s_elems s) = firstn k (s_elems s)).
      { unfold remove_range. rewrite skipn_all2 by lia. rewrite app_nil_r. f_equal. lia. }
      rewrite Hlist. unfold erase. rewrite Hsz.
      destruct (destruct_elem_mem L Hwf v _ offs k (v_mem v) R ltac:(lia) ltac:(auto)) as (m' & E & _).
      destruct (destruct_elem_evs v _ offs k (v_mem v) R ltac:(lia) ltac:(auto)) as [D B].
      rewrite Esm in E, D, B. rewrite <- Hi in E, D, B.
      destruct (destruct_elem L v i) as [v1 e1]. cbn [fst snd] in *. subst v1.
      destruct (all_triv L) eqn:Htr.
      + (* a trivially relocatable list: nothing to construct or destroy at all *)
        assert (Hnc : forallb (fun p => negb (ntc true p)) L = true) by (unfold all_triv, all_ctriv in Htr; apply andb_true_iff in Htr; tauto).
        assert (Hnd : forallb (fun p => negb (ntd p)) L = true) by (unfold all_triv, all_dtriv in Htr; apply andb_true_iff in Htr; tauto).
        rewrite (move_forward_triv_eq L Htr).
        assert (Hmf : snd (move_forward_triv L (set_mem v m') (i + 1) i) = snd (move_forward_triv L (set_mem v m') (i + 1) i)) by reflexivity.
        assert (Hbm : v_bid (fst (move_forward_triv L (set_mem v m') (i + 1) i)) = v_bid v /\
                      keep born (snd (move_forward_triv L (set_mem v m') (i + 1) i)) = [] /\
                      keep died (snd (move_forward_triv L (set_mem v m') (i + 1) i)) = []).
        { unfold move_forward_triv. destruct (has_varying L && _); [repeat split; reflexivity|].
          destruct (has_varying L); repeat split; reflexivity. }
        destruct (move_forward_triv L (set_mem v m') (i + 1) i) as [v2 e2]. cbn [fst snd] in *.
        destruct Hbm as (Hb2 & Bm & Dm).
        rewrite resize_bid, Hb2. split; [exact Hb|].
        rewrite !keep_app, D, B, Bm, Dm. unfold live. rewrite resize_bid, Hb2.
        rewrite !(vobjs_none (ntc true) Hnc). unfold eobjs. rewrite (obj_addrs_none ntd L _ _ Hnd). apply Permutation_refl.
      + rewrite (move_forward_none L (set_mem v m') (i + 1) i Htr) by (change (vsize L (set_mem v m')) with (vsize L v); lia).
        cbn [fst snd]. rewrite resize_bid. cbn [v_bid set_mem]. split; [exact Hb|].
        rewrite !app_nil_r, D, B, app_nil_r.
        pose proof (live_drop v _ offs k R ltac:(lia)) as Hp.
        rewrite (skipn_nth_cons 0 k offs) in Hp by lia.
        rewrite (skipn_nth_cons ([] : tuple) k (s_elems s)) in Hp by lia.
        rewrite !skipn_all2 in Hp by lia. cbn [vobjs] in Hp. rewrite app_nil_r in Hp.
        unfold live at 2. rewrite resize_bid. cbn [v_bid set_mem]. exact Hp.
    - (* erase(first, end()) *)
      destruct (vstep_rep_nt L Hwf junk v s (SEraseRange i j) (ex_intro _ offs R) Hc Hv (or_intror Hlt)) as (R' & Hc' & Hf').
      cbn [vstep sstep s_elems s_cap svalid lt_ok] in *. destruct Hv as [Hi Hj]. subst j.
      split; [exact R'|]. split; [exact Hc'|]. split; [exact Hf'|].
      assert (Hlist : remove_range (Z.to_nat i) (Z.to_nat (Z.of_nat (length (s_elems s)))) (s_elems s) = firstn (Z.to_nat i) (s_elems s)).
      { unfold remove_range. rewrite skipn_all2 by lia. apply app_nil_r. }
      rewrite Hlist. unfold erase_range. rewrite Hsz.
      replace (Z.of_nat (length (s_elems s)) <? Z.of_nat (length (s_elems s))) with false by (symmetry; apply Z.ltb_irrefl).
      cbn [andb].
      replace (Z.of_nat (length (s_elems s)) - (Z.of_nat (length (s_elems s)) - i)) with i by lia.
      pose proof (live_drop v _ offs (Z.to_nat i) R ltac:(lia)) as Hp.
      destruct (all_dtriv L) eqn:Hdt.
      + cbn [fst snd app keep]. rewrite resize_bid. split; [exact Hb|].
        rewrite (vobjs_none ntd Hdt) in Hp. cbn [tag map app] in Hp.
        rewrite app_nil_r. unfold live at 2. rewrite resize_bid. exact Hp.
      + destruct (destruct_range_mem L Hwf v _ offs R (Z.to_nat (Z.of_nat (length (s_elems s)) - i)) (Z.to_nat i) (v_mem v) ltac:(lia) ltac:(auto)) as (m' & E & _).
        destruct (destruct_range_evs v _ offs R (Z.to_nat (Z.of_nat (length (s_elems s)) - i)) (Z.to_nat i) (v_mem v) ltac:(lia) ltac:(auto)) as [D B].
        rewrite Esm in E, D, B. rewrite Z2Nat.id in E, D, B by lia.
        destruct (destruct_range L v i _) as [v1 e1]. cbn [fst snd] in *. subst v1.
        rewrite resize_bid. cbn [v_bid set_mem]. split; [exact Hb|].
        rewrite !app_nil_r, D, B, app_nil_r.
        rewrite !firstn_all2 by (rewrite skipn_length; lia).
        unfold live at 2. rewrite resize_bid. cbn [v_bid set_mem]. exact Hp.
    - (* clear *)
      destruct (vstep_rep_nt L Hwf junk v s SClear (ex_intro _ offs R) Hc Hv (or_intror I)) as (R' & Hc' & Hf').
      cbn [vstep sstep s_elems s_cap svalid] in *.
      split; [exact R'|]. split; [exact Hc'|]. split; [exact Hf'|].
      unfold clear. rewrite Hsz, Nat2Z.id.
      pose proof (live_drop v _ offs 0 R ltac:(lia)) as Hp. cbn [skipn firstn cpos vobjs tag map] in Hp. rewrite app_nil_r in Hp.
      destruct (all_dtriv L) eqn:Hdt.
      + cbn [fst snd app keep]. rewrite resize_bid. split; [exact Hb|].
        rewrite (vobjs_none ntd Hdt) in Hp. cbn [tag map] in Hp.
        rewrite app_nil_r. unfold live at 2. cbn [cpos vobjs tag map]. exact Hp.
      + destruct (destruct_range_mem L Hwf v _ offs R (length (s_elems s)) 0 (v_mem v) ltac:(lia) ltac:(auto)) as (m' & E & _).
        destruct (destruct_range_evs v _ offs R (length (s_elems s)) 0 (v_mem v) ltac:(lia) ltac:(auto)) as [D B].
        rewrite Esm in E, D, B. change (Z.of_nat 0) with 0 in E, D, B. cbn [skipn] in D.
        destruct (destruct_range L v 0 _) as [v1 e1]. cbn [fst snd] in *. subst v1.
        rewrite resize_bid. cbn [v_bid set_mem]. split; [exact Hb|].
        rewrite D, B, app_nil_r.
        rewrite firstn_all2 by lia. rewrite (firstn_all2 (n := length (s_elems s)) (s_elems s)) by lia.
        unfold live at 2. cbn [cpos vobjs tag map]. rewrite app_nil_r. exact Hp.
    - (* reserve *)
      cbn [sstep s_elems s_cap svalid] in *.
      destruct (reserve_rep_nt L Hwf v (s_elems s) n b junk nb (S nb) (ex_intro _ offs R)) as (H1 & H2 & H3).
      split; [exact H1|]. split; [lia|]. split; [exact H3|].
      unfold reserve in *. destruct (Z.ltb_spec (v_cap v) n) as [Hlt'|Hge].
      + destruct (insert_into_evs true v _ offs nb junk R Hcft) as [B D].
        destruct (insert_into true true L v nb junk) as [[v1 m] e1]. cbn [fst snd v_bid bidn] in *.
        split; [exists nb; split; [reflexivity|lia]|].
        destruct (keep_dealloc_tbl v) as [T1 T2]. destruct (keep_dealloc_mem v) as [M1 M2].
        assert (Hea : forall tab : bool, keep born (EAlloc (v_aid v) (SA L) (units L (if has_varying L then needed n b (esize L (v_fixed v)) else needed_grow_fixed n b (v_stride v))) nb :: (if tab then [EAlloc (v_aid v) 8 n (S nb)] else [])) = [] /\
                                          keep died (EAlloc (v_aid v) (SA L) (units L (if has_varying L then needed n b (esize L (v_fixed v)) else needed_grow_fixed n b (v_stride v))) nb :: (if tab then [EAlloc (v_aid v) 8 n (S nb)] else [])) = []).
        { intros []; split; reflexivity. }
        destruct (Hea (has_varying L)) as [A1 A2].
        rewrite !keep_app, A1, A2, B, D. 
        assert (Ht1 : keep born (if has_varying L then dealloc_tbl L v else []) = [] /\ keep died (if has_varying L then dealloc_tbl L v else []) = []).
        { destruct (has_varying L); [split; assumption|split; reflexivity]. }
        destruct Ht1 as [Tb Td]. rewrite Tb, Td, M1, M2. cbn [app]. rewrite !app_nil_r.
        unfold live. cbn [v_bid bidn]. rewrite <- (rep_cpos v _ offs R). rewrite <- (vobjs_same true).
        apply Permutation_refl.
      + cbn [fst snd keep app]. split; [destruct Hb as (b0 & Eb0 & Hb0); exists b0; split; [exact Eb0|lia]|]. rewrite app_nil_r. apply Permutation_refl.
  Qed.

  (* ---------- histories ---------- *)
  Fixpoint lrun (junk : mem) (st : vec * nat) (h : list sop) : (vec * nat) * list ev :=
    match h with
    | [] => (st, [])
    | o :: h' => let r1 := lstep junk st o in let r2 := lrun junk (fst r1) h' in (fst r2, snd r1 ++ snd r2)
    end.
  Fixpoint lt_hist_ok (s : svec) (h : list sop) : Prop :=
    match h with
    | [] => True
    | o :: h' => lt_ok s o /\ lt_hist_ok (sstep s o) h'
    end.

  Theorem lrun_balance junk h : forall v nb s,
    Rep L v (s_elems s) -> v_cap v = s_cap s -> shist_valid L (fixed_counts L (v_fixed v)) s h ->
    lt_hist_ok s h -> (exists b0, v_bid v = Some b0 /\ (b0 < nb)%nat) ->
    let r := lrun junk (v, nb) h in
    Rep L (fst (fst r)) (s_elems (srun s h)) /\ v_bid (fst (fst r)) <> None /\
    Permutation (live v (s_elems s) ++ keep born (snd r)) (keep died (snd r) ++ live (fst (fst r)) (s_elems (srun s h))).
  Proof.
    induction h as [|o h IH]; intros v nb s R Hc Hv Hlt Hb; cbv zeta.
    - cbn [lrun fst snd srun keep app]. split; [exact R|]. split; [destruct Hb as (b0 & Eb0 & _); congruence|]. rewrite app_nil_r. apply Permutation_refl.
    - cbn [lrun srun shist_valid lt_hist_ok] in *. destruct Hv as [Hv1 Hv2]. destruct Hlt as [Hl1 Hl2].
      destruct R as [offs R].
      pose proof (lstep_balance junk v nb s o offs R Hc Hv1 Hl1 Hb) as Hs. cbv zeta in Hs.
      destruct (lstep junk (v, nb) o) as [[v1 nb1] e1]. cbn [fst snd] in *.
      destruct Hs as (R1 & Hc1 & Hf1 & Hb1 & P1).
      specialize (IH v1 nb1 (sstep s o) R1 Hc1 ltac:(rewrite Hf1; exact Hv2) Hl2 Hb1). cbv zeta in IH.
      destruct (lrun junk (v1, nb1) h) as [[v2 nb2] e2]. cbn [fst snd] in *.
      destruct IH as (R2 & Hn2 & P2). split; [exact R2|]. split; [exact Hn2|].
      rewrite !keep_app.
      rewrite app_assoc. eapply Permutation_trans; [apply Permutation_app_tail; exact P1|].
      rewrite <- !app_assoc. apply Permutation_app_head. exact P2.
  Qed.

  (* the destructor destroys what is live *)
  Lemma destroy_balance v l : Rep L v l -> v_bid v <> None ->
    Permutation (live v l) (keep died (destroy L v)) /\ keep born (destroy L v) = [].
  Proof.
    intros [offs R] Hbid. unfold destroy.
    assert (Esm : set_mem v (v_mem v) = v) by (destruct v; reflexivity).
    pose proof (eo_length _ _ _ _ _ (r_order _ _ _ _ R)) as Hlen.
    destruct (keep_dealloc_tbl v) as [T1 T2]. destruct (keep_dealloc_mem v) as [M1 M2].
    pose proof (live_drop v l offs 0 R ltac:(lia)) as Hp. cbn [skipn firstn cpos vobjs] in Hp.
    change (tag (bidn (v_bid v)) []) with (@nil obj) in Hp. rewrite app_nil_r in Hp.
    pose proof (rep_vsize L v l offs R) as Hsz.
    pose proof (destruct_range_evs v l offs R (length l) 0 (v_mem v) ltac:(lia) ltac:(auto)) as Hde.
    rewrite Esm in Hde. change (Z.of_nat 0) with 0 in Hde. cbn [skipn] in Hde.
    rewrite firstn_all2 in Hde by lia. rewrite (firstn_all2 (n := length l) l) in Hde by lia.
    destruct (v_bid v) as [b0|]; [|congruence].
    destruct (all_dtriv L) eqn:Hdt.
    - cbn [app]. rewrite !keep_app, T1, T2, M1, M2. cbn [app].
      rewrite (vobjs_none ntd Hdt) in Hp. split; [exact Hp|reflexivity].
    - rewrite Hsz, Nat2Z.id.
      destruct (destruct_range L v 0 (length l)) as [v1 e1]. cbn [snd] in *. destruct Hde as [D B].
      rewrite !keep_app, D, B, T1, T2, M1, M2. cbn [app]. rewrite !app_nil_r.
      split; [exact Hp|reflexivity].
  Qed.
End LifeHist.

(* C06 along a whole life: construction, ANY valid history (erase only up to the end), then
   destruction - every object that was constructed (by emplace_back or by the relocation of a
   growing reserve) is destroyed exactly once: the constructions and the destructions,
   as multisets of (block, offset, size), coincide.  Every well-formed list whose non-trivial
   types have both a non-trivial constructor and destructor and whose span sizes are of a
   trivially copyable type. *)
Theorem whole_life_objects_balanced : forall L cap budget fixed aid junk bid tbid h,
  wf_plist L = true -> (forall mv p, In p L -> ntc mv p = ntd p) -> cft L = true ->
  0 <= cap -> Forall (fun c => 0 <= c) fixed ->
  let v0 := fst (mkvec L cap budget fixed aid junk bid tbid) in
  let s0 := {| s_cap := cap; s_elems := [] |} in
  shist_valid L (fixed_counts L fixed) s0 h -> lt_hist_ok s0 h ->
  let r := lrun L junk (v0, S (Nat.max bid tbid)) h in
  let evs := snd r ++ destroy L (fst (fst r)) in
  Permutation (keep born evs) (keep died evs).
Proof.
  intros L cap budget fixed aid junk bid tbid h Hwf Hsame Hcft Hcap Hfx. cbv zeta. intros Hv Hlt.
  assert (Hst : has_varying L = false -> stride_ok L (fixed_counts L fixed) (snd (esize L fixed))).
  { intros Hnv. apply esize_stride_ok; auto. apply fixed_counts_nonneg; auto. }
  destruct (mkvec_rep L Hwf cap budget fixed aid junk bid tbid Hcap Hst) as (R0 & Hc0 & Hf0).
  cbv zeta in *.
  pose proof (lrun_balance L Hwf Hsame Hcft junk h _ (S (Nat.max bid tbid)) {| s_cap := cap; s_elems := [] |} R0 Hc0) as Hb.
  cbv zeta in Hb.
  destruct Hb as (R & Hbid & P); auto.
  { unfold mkvec. cbn [fst v_bid]. exists bid. split; [reflexivity|lia]. }
  set (r := lrun L junk (fst (mkvec L cap budget fixed aid junk bid tbid), S (Nat.max bid tbid)) h) in *.
  destruct (destroy_balance L Hwf Hsame _ _ R Hbid) as [Pd Bd].
  rewrite !keep_app, Bd, app_nil_r.
  unfold live at 1 in P. cbn [s_elems cpos vobjs tag map app] in P.
  eapply Permutation_trans; [exact P|]. apply Permutation_app_head. exact Pd.
Qed.

(* the hypotheses are satisfiable: the list and history of NtRefine.refinement_every_list_applies *)
Example whole_life_applies :
  wf_plist ntL = true /\ (forall mv p, In p ntL -> ntc mv p = ntd p) /\ cft ntL = true /\
  shist_valid ntL (fixed_counts ntL []) {| s_cap := 3; s_elems := [] |} ntH /\
  lt_hist_ok {| s_cap := 3; s_elems := [] |} ntH /\
  length (keep born (snd (lrun ntL (fun _ => 170) (fst (mkvec ntL 3 40 [] 0 (fun _ => 170) 0 1), 2%nat) ntH))) = 11%nat.
Proof.
  split; [reflexivity|]. split.
  { intros mv p [<-|[<-|[]]]; reflexivity. }
  split; [reflexivity|]. split; [|split].
  - cbn. repeat split; try lia; try discriminate; repeat constructor.
  - cbn. repeat split; lia.
  - vm_compute. reflexivity.
Qed.
