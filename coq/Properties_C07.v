(* C07 — all memory comes from the allocator and is returned to it exactly once. *)
From Coq Require Import ZArith List Bool.
From Cntgs Require Import Base Layout Mem Vector World Spec Rep WorldThm NtLedger Proxy Elem ElemLedger.
Import ListNotations.
Local Open Scope Z_scope.

(* The ledger automaton ([ledger], WorldThm.v) accepts an event sequence iff every
   allocation yields a fresh block and every deallocation names a live block with the
   allocator, unit size and count it was allocated with.  Construction, ANY history of
   emplace_back / pop_back / erase / erase(first,last) / clear / reserve (valid or not, any
   length), destruction: the ledger is accepted and ends EMPTY — nothing leaks, nothing is
   returned twice, with another size or through another allocator.  For every list of
   trivially relocatable types; block ids are handed out in allocation order. *)
Theorem C07_whole_life_balanced : forall L, all_triv L = true ->
  forall cap budget fixed aid junk h,
  let '(v0, e0) := mkvec L cap budget fixed aid junk 0%nat 1%nat in
  let '((v, nb), e) := lrun L junk (v0, 2%nat) h in
  ledger [] (e0 ++ e ++ destroy L v) = Some [].
Proof. exact whole_life_ledger. Qed.
Print Assumptions C07_whole_life_balanced.

(* every single operation transforms the set of owned blocks as the ledger says *)
Theorem C07_step_balanced : forall L, all_triv L = true -> forall junk v nb o,
  ids_ok L v nb ->
  let '((v', nb'), e) := lstep L junk (v, nb) o in
  ledger (blocks_of L v) e = Some (blocks_of L v') /\ ids_ok L v' nb'.
Proof. exact lstep_ledger. Qed.
Print Assumptions C07_step_balanced.

(* the destructor returns exactly the owned blocks — for EVERY parameter list *)
Theorem C07_destroy_returns_everything : forall L v,
  (forall b tb, v_bid v = Some b -> t_bid (v_tbl v) = Some tb -> b <> tb) ->
  (has_varying L = false -> t_bid (v_tbl v) = None) ->
  ledger (blocks_of L v) (destroy L v) = Some [].
Proof. exact destroy_ledger. Qed.
Print Assumptions C07_destroy_returns_everything.

Example C07_example :
  let L := [ {| pk := Plain; psz := 1; pal := 1; pty := TU8 |};
             {| pk := Varying; psz := 2; pal := 2; pty := TBlob |} ] in
  let h := [SEmplace [[[1]]; [[5; 5]]]; SReserve 4 16; SEmplace [[[0]]; []]; SErase 0; SReserve 9 40; SClear] in
  let '(v0, e0) := mkvec L 2 4 [] 7 (mfill 170) 0%nat 1%nat in
  let '((v, nb), e) := lrun L (mfill 170) (v0, 2%nat) h in
  length (filter (fun x => match x with EAlloc _ _ _ _ => true | _ => false end) (e0 ++ e ++ destroy L v)) = 6%nat /\
  ledger [] (e0 ++ e ++ destroy L v) = Some [].
Proof. vm_compute. split; reflexivity. Qed.

(* ... for EVERY parameter list and EVERY operation, erase with elements behind the erased
   ones and non-trivial value types included (NtLedger.v): constructions, destructions,
   relocations through constructors and byte copies are transparent to the ledger, and no
   operation other than a growing reserve changes which blocks the vector owns *)
Theorem C07_whole_life_balanced_every_list : forall L cap budget fixed aid junk h,
  let '(v0, e0) := mkvec L cap budget fixed aid junk 0%nat 1%nat in
  let '((v, nb), e) := lrun L junk (v0, 2%nat) h in
  ledger [] (e0 ++ e ++ destroy L v) = Some [].
Proof. exact whole_life_ledger_nt. Qed.
Print Assumptions C07_whole_life_balanced_every_list.

Theorem C07_step_balanced_every_list : forall L junk v nb o,
  ids_ok L v nb ->
  let '((v', nb'), e) := lstep L junk (v, nb) o in
  ledger (blocks_of L v) e = Some (blocks_of L v') /\ ids_ok L v' nb'.
Proof. exact lstep_ledger_nt. Qed.
Print Assumptions C07_step_balanced_every_list.

(* ---------- the block of a ContiguousElement ----------
   Whole life of an element made from a reference (copy or move form, any list, any value
   types): after construction the ledger holds exactly one block - requested from the
   element's allocator, unit size SA, the rounded-up number of units - and after destruction
   it is empty: the block went back to the same allocator with the same unit size and count,
   nothing else was allocated or freed. *)
Theorem C07_element_block_obtained_once_returned_once : forall mv L ms fls sb aid junk nb,
  let r := elem_from_ref mv L ms fls sb aid junk nb in
  let e := snd (fst r) in
  ledger [] (snd r) = Some [(nb, (aid, SA L, units L (ref_bytes L fls)))] /\
  ledger [] (snd r ++ elem_destroy L e) = Some [].
Proof. exact elem_life_ledger. Qed.
Print Assumptions C07_element_block_obtained_once_returned_once.
