(* NtLedger.v — C07 for EVERY parameter list and EVERY operation (erase with a tail included):
   the allocation ledger only sees allocate / deallocate events; constructions, destructions,
   relocations through constructors and byte copies are transparent to it, and no operation
   other than a growing reserve changes which blocks the vector owns. *)
From Coq Require Import ZArith Lia List Bool.
From Cntgs Require Import Base BaseLemmas Layout LayoutThm Mem MemLemmas Vector World Spec Rep ElemLemmas Ordered
  EsizeThm Refine StableThm WorldThm.
Import ListNotations.
Local Open Scope Z_scope.

Definition same_blocks (v v' : vec) : Prop :=
  v_bid v' = v_bid v /\ v_aid v' = v_aid v /\ v_units v' = v_units v /\
  t_bid (v_tbl v') = t_bid (v_tbl v) /\ t_cap (v_tbl v') = t_cap (v_tbl v).

Lemma same_blocks_refl v : same_blocks v v.
Proof. repeat split. Qed.
Lemma same_blocks_trans a b c : same_blocks a b -> same_blocks b c -> same_blocks a c.
Proof. unfold same_blocks. intros (A1 & A2 & A3 & A4 & A5) (B1 & B2 & B3 & B4 & B5). repeat split; congruence. Qed.
Lemma same_blocks_of L v v' : same_blocks v v' -> blocks_of L v' = blocks_of L v.
Proof. intros (A1 & A2 & A3 & A4 & A5). apply blocks_of_same; auto. Qed.
Lemma same_blocks_ids L v v' nb : same_blocks v v' -> ids_ok L v nb -> ids_ok L v' nb.
Proof.
  intros (A1 & A2 & A3 & A4 & A5) (H1 & H2 & H3 & H4). unfold ids_ok. rewrite A1, A4. repeat split; auto.
Qed.

Lemma no_alloc_ledger evs live : no_alloc evs -> ledger live evs = Some live.
Proof.
  intros H. apply ledger_no_alloc. unfold no_alloc in H. rewrite forallb_forall in *. intros e He. specialize (H e He).
  destruct e; cbn in *; try reflexivity; discriminate.
Qed.

(* ---------- frames of the element-wise operations ---------- *)
Lemma destruct_elem_frame L v i : no_alloc (snd (destruct_elem L v i)) /\ same_blocks v (fst (destruct_elem L v i)).
Proof.
  unfold destruct_elem. destruct (all_dtriv L); [split; [reflexivity|apply same_blocks_refl]|].
  pose proof (destruct_fields_no_alloc L (fst (load L (v_fixed v) (v_mem v) (eaddr L v i))) (bidn (v_bid v)) (v_mem v)) as H.
  destruct (destruct_fields L _ _ _) as [m evs]. cbn [fst snd] in *. split; [exact H|repeat split].
Qed.

Lemma destruct_range_frame L : forall n v i, no_alloc (snd (destruct_range L v i n)) /\ same_blocks v (fst (destruct_range L v i n)).
Proof.
  induction n as [|n IH]; intros v i; [split; [reflexivity|apply same_blocks_refl]|]. cbn [destruct_range].
  destruct (destruct_elem_frame L v i) as [H1 H2]. destruct (destruct_elem L v i) as [v1 e1]. cbn [fst snd] in *.
  destruct (IH v1 (i + 1)) as [H3 H4]. destruct (destruct_range L v1 (i + 1) n) as [v2 e2]. cbn [fst snd] in *.
  split; [apply no_alloc_app; auto|eapply same_blocks_trans; eauto].
Qed.

Lemma move_objs_no_alloc p bid : forall n m src dst, no_alloc (snd (move_objs p bid m src dst n)).
Proof.
  induction n as [|n IH]; intros m src dst; [reflexivity|]. cbn [move_objs].
  match goal with |- context [move_objs p bid ?m2 ?s2 ?d2 n] => specialize (IH m2 s2 d2); destruct (move_objs p bid m2 s2 d2 n) as [m3 evs] end.
  cbn [snd] in *. apply no_alloc_app; auto. destruct (ntc _ p); reflexivity.
Qed.

Lemma move_fields_no_alloc L : forall pv fl bid m a, no_alloc (snd (fst (move_fields L pv fl bid m a))).
Proof.
  induction L as [|p L IH]; intros pv fl bid m a; [reflexivity|].
  destruct pv as [|pt pv]; [reflexivity|]. destruct fl as [|[sa c] fl]; [reflexivity|]. cbn [move_fields].
  pose proof (move_objs_no_alloc p bid (Z.to_nat c) m sa (align_if (pt <? pal p) (pal p) a)) as H1.
  destruct (move_objs p bid m sa _ (Z.to_nat c)) as [m1 e1]. cbn [snd] in H1.
  specialize (IH pv fl bid m1 (align_if (pt <? pal p) (pal p) a + c * psz p)).
  destruct (move_fields L pv fl bid m1 _) as [[m2 e2] e]. cbn [fst snd] in *. apply no_alloc_app; auto.
Qed.

Lemma move_one_nt_frame L v from i : no_alloc (snd (move_one_nt L v from i)) /\ same_blocks v (fst (move_one_nt L v from i)).
Proof.
  unfold move_one_nt.
  pose proof (move_fields_no_alloc L (prevs L) (fst (load L (v_fixed v) (v_mem v) (eaddr L v from))) (bidn (v_bid v)) (v_mem v)
                (if has_varying L then first_align L (slotv v i) else v_stride v * i)) as H1.
  destruct (move_fields L (prevs L) _ (bidn (v_bid v)) (v_mem v) _) as [[m1 e1] e]. cbn [fst snd] in H1.
  pose proof (destruct_fields_no_alloc L (fst (load L (v_fixed v) (v_mem v) (eaddr L v from))) (bidn (v_bid v)) m1) as H2.
  destruct (destruct_fields L _ (bidn (v_bid v)) m1) as [m2 e2]. cbn [fst snd] in *.
  split; [apply no_alloc_app; auto|]. destruct (has_varying L); repeat split.
Qed.

Lemma move_forward_nt_frame L : forall n v from i, no_alloc (snd (move_forward_nt L v from i n)) /\ same_blocks v (fst (move_forward_nt L v from i n)).
Proof.
  induction n as [|n IH]; intros v from i; [split; [reflexivity|apply same_blocks_refl]|]. cbn [move_forward_nt].
  destruct (move_one_nt_frame L v from i) as [H1 H2]. destruct (move_one_nt L v from i) as [v1 e1]. cbn [fst snd] in *.
  destruct (IH v1 (from + 1) (i + 1)) as [H3 H4]. destruct (move_forward_nt L v1 (from + 1) (i + 1) n) as [v2 e2]. cbn [fst snd] in *.
  split; [apply no_alloc_app; auto|eapply same_blocks_trans; eauto].
Qed.

Lemma move_forward_frame L v from to : no_alloc (snd (move_forward L v from to)) /\ same_blocks v (fst (move_forward L v from to)).
Proof.
  unfold move_forward. destruct (all_triv L); [|apply move_forward_nt_frame].
  unfold move_forward_triv. destruct (has_varying L && _); [split; [reflexivity|apply same_blocks_refl]|].
  destruct (has_varying L); split; try reflexivity; repeat split.
Qed.

Lemma resize_frame L v n : same_blocks v (resize L v n).
Proof. unfold resize. destruct (has_varying L); [destruct (_ <? _)|]; repeat split. Qed.

Lemma emplace_frame L v t : no_alloc (snd (emplace_back L v t)) /\ same_blocks v (fst (emplace_back L v t)).
Proof.
  unfold emplace_back, store. destruct (has_varying L).
  - pose proof (store_from_no_alloc L (prevs L) t (bidn (v_bid v)) (v_mem v) (first_align L (v_last v))) as H.
    destruct (store_from L _ _ _ _ _) as [[m evs] e]. cbn [fst snd] in *. split; [exact H|repeat split].
  - pose proof (store_from_no_alloc L (prevs L) t (bidn (v_bid v)) (v_mem v) (v_stride v * v_count v)) as H.
    destruct (store_from L _ _ _ _ _) as [[m evs] e]. cbn [fst snd] in *. split; [exact H|repeat split].
Qed.

(* relocation through constructors never calls the allocator *)
Lemma relocate_objs_no_alloc mv p sbid bid : forall n ms m src dst, no_alloc (snd (relocate_objs mv p sbid bid ms m src dst n)).
Proof.
  induction n as [|n IH]; intros ms m src dst; [reflexivity|]. cbn [relocate_objs].
  match goal with |- context [relocate_objs mv p sbid bid ?a ?b ?c ?d n] => specialize (IH a b c d); destruct (relocate_objs mv p sbid bid a b c d n) as [[x y] evs] end.
  cbn [snd] in *. unfold no_alloc in *. cbn [forallb]. rewrite IH. destruct mv; reflexivity.
Qed.

Lemma relocate_fields_no_alloc mv sbid bid L : forall fl ms m d, no_alloc (snd (relocate_fields mv L fl sbid bid ms m d)).
Proof.
  induction L as [|p L IH]; intros fl ms m d; [reflexivity|]. destruct fl as [|[a c] fl]; [reflexivity|]. cbn [relocate_fields].
  destruct (ntc _ p).
  - pose proof (relocate_objs_no_alloc mv p sbid bid (Z.to_nat c) ms m a (a + d)) as H1.
    destruct (relocate_objs mv p sbid bid ms m a (a + d) (Z.to_nat c)) as [[ms1 m1] e1]. cbn [snd] in H1.
    specialize (IH fl ms1 m1 d). destruct (relocate_fields mv L fl sbid bid ms1 m1 d) as [[x y] e2]. cbn [snd] in *.
    apply no_alloc_app; auto.
  - specialize (IH fl ms m d). destruct (relocate_fields mv L fl sbid bid ms m d) as [[x y] e2]. cbn [snd app] in *. exact IH.
Qed.

Lemma relocate_elems_no_alloc mv L bid : forall n src m i, no_alloc (snd (relocate_elems mv L src bid m i n)).
Proof.
  induction n as [|n IH]; intros src m i; [reflexivity|]. cbn [relocate_elems].
  pose proof (relocate_fields_no_alloc mv (bidn (v_bid src)) bid L (fst (load L (v_fixed src) (v_mem src) (eaddr L src i))) (v_mem src) m 0) as H1.
  destruct (relocate_fields mv L _ (bidn (v_bid src)) bid (v_mem src) m 0) as [[ms1 m1] e1]. cbn [snd] in H1.
  specialize (IH (set_mem src ms1) m1 (i + 1)). destruct (relocate_elems mv L (set_mem src ms1) bid m1 (i + 1) n) as [[x y] e2]. cbn [snd] in *.
  apply no_alloc_app; auto.
Qed.

Lemma insert_into_no_alloc mv destr L v bid junk : no_alloc (snd (insert_into mv destr L v bid junk)).
Proof.
  unfold insert_into. destruct (all_ctriv _ L && (negb destr || all_dtriv L)); [reflexivity|].
  destruct (all_ctriv _ L).
  - destruct (destr && negb (all_dtriv L)).
    + destruct (destruct_range_frame L (Z.to_nat (vsize L v)) v 0) as [H _].
      destruct (destruct_range L v 0 _) as [s2 e2]. cbn [snd] in *. apply no_alloc_app; [reflexivity|]. exact H.
    + reflexivity.
  - pose proof (relocate_elems_no_alloc mv L bid (Z.to_nat (vsize L v)) v (mcopy (v_mem v) 0 junk 0 (dend L v)) 0) as H1.
    destruct (relocate_elems mv L v bid _ 0 _) as [[s1 m1] e1]. cbn [snd] in H1.
    destruct (destr && negb (all_dtriv L)).
    + destruct (destruct_range_frame L (Z.to_nat (vsize L s1)) s1 0) as [H _].
      destruct (destruct_range L s1 0 _) as [s2 e2]. cbn [snd] in *.
      apply no_alloc_app; [reflexivity|]. apply no_alloc_app; auto.
    + cbn [snd]. apply no_alloc_app; [reflexivity|]. rewrite app_nil_r. exact H1.
Qed.

(* events that are not allocations can be dropped from the middle of a log *)
Lemma ledger_drop_mid e1 : no_alloc e1 -> forall a live r, ledger live (a ++ e1 ++ r) = ledger live (a ++ r).
Proof.
  intros H1. induction a as [|e a IH]; intros live r.
  - cbn [app]. rewrite (ledger_app live e1 r live (no_alloc_ledger e1 live H1)). reflexivity.
  - cbn [app ledger]. destruct e; try apply IH.
    + destruct (has_blk bid live); [reflexivity|apply IH].
    + destruct (find_blk bid live) as [[[a' u'] n']|]; [|reflexivity].
      destruct ((aid =? a') && (unit =? u') && (n =? n')); [apply IH|reflexivity].
Qed.

(* the allocations and deallocations of a growing reserve *)
Lemma reserve_ledger_core L v n u nb m : ids_ok L v nb ->
  let tab := has_varying L in
  let ea := EAlloc (v_aid v) (SA L) u nb :: (if tab then [EAlloc (v_aid v) 8 n (S nb)] else []) in
  let v' := {| v_cap := n; v_bid := Some nb; v_units := u; v_aid := v_aid v; v_mem := m;
               v_fixed := v_fixed v; v_count := v_count v; v_stride := v_stride v;
               v_tbl := if tab then tbl_relocate (v_tbl v) n (S nb) else v_tbl v;
               v_last := v_last v |} in
  ledger (blocks_of L v) (ea ++ (if tab then dealloc_tbl L v else []) ++ dealloc_mem L v) = Some (blocks_of L v') /\
  ids_ok L v' (S (S nb)).
Proof.
  intros Hid. cbv zeta. destruct Hid as (Hb & Htb & Hne & Hnt).
  unfold blocks_of, dealloc_tbl, dealloc_mem. cbn [v_bid v_aid v_units v_tbl].
  destruct (has_varying L) eqn:Hv.
  - destruct (v_bid v) as [b0|] eqn:Eb; destruct (t_bid (v_tbl v)) as [tb0|] eqn:Et;
      cbn [app ledger has_blk existsb fst snd find_blk tbl_relocate t_bid t_cap];
      repeat match goal with
             | |- context [Nat.eqb ?x ?x] => rewrite (Nat.eqb_refl x)
             | |- context [Z.eqb ?x ?x] => rewrite (Z.eqb_refl x)
             end.
    all: try (specialize (Hb _ eq_refl)). all: try (specialize (Htb _ eq_refl)). all: try (specialize (Hne _ _ eq_refl eq_refl)).
    all: repeat match goal with
           | |- context [Nat.eqb ?x ?y] =>
               first [ replace (Nat.eqb x y) with false by (symmetry; apply Nat.eqb_neq; lia) ]
           end.
    all: cbn [orb andb negb app ledger has_blk existsb fst snd find_blk drop_blk filter].
    all: repeat match goal with
             | |- context [Nat.eqb ?x ?x] => rewrite (Nat.eqb_refl x)
             | |- context [Z.eqb ?x ?x] => rewrite (Z.eqb_refl x)
             | |- context [Nat.eqb ?x ?y] =>
               first [ replace (Nat.eqb x y) with false by (symmetry; apply Nat.eqb_neq; lia) ]
             end.
    all: cbn [orb andb negb app ledger has_blk existsb fst snd find_blk drop_blk filter].
    all: repeat match goal with
             | |- context [Nat.eqb ?x ?x] => rewrite (Nat.eqb_refl x)
             | |- context [Z.eqb ?x ?x] => rewrite (Z.eqb_refl x)
             | |- context [Nat.eqb ?x ?y] =>
               first [ replace (Nat.eqb x y) with false by (symmetry; apply Nat.eqb_neq; lia) ]
             end.
    all: cbn [orb andb negb app ledger has_blk existsb fst snd find_blk drop_blk filter].
    all: (split; [reflexivity|]).
    all: unfold ids_ok; cbn [v_bid v_tbl tbl_relocate t_bid]; rewrite Hv; repeat split; intros; try discriminate;
      repeat match goal with H : Some _ = Some _ |- _ => inversion H; subst; clear H end; lia.
  - specialize (Hnt eq_refl).
    destruct (v_bid v) as [b0|] eqn:Eb;
      cbn [app ledger has_blk existsb fst snd find_blk];
      try (specialize (Hb _ eq_refl)).
    + replace (Nat.eqb b0 nb) with false by (symmetry; apply Nat.eqb_neq; lia).
      cbn [orb app ledger has_blk existsb fst snd find_blk].
      rewrite Nat.eqb_refl, !Z.eqb_refl. cbn [andb drop_blk filter fst negb].
      rewrite Nat.eqb_refl. replace (Nat.eqb nb b0) with false by (symmetry; apply Nat.eqb_neq; lia).
      cbn [negb]. split; [reflexivity|].
      unfold ids_ok. cbn [v_bid v_tbl]. rewrite Hnt, Hv. repeat split; intros; try discriminate.
      inversion H; subst. lia.
    + cbn [app ledger]. split; [reflexivity|].
      unfold ids_ok. cbn [v_bid v_tbl]. rewrite Hnt, Hv. repeat split; intros; try discriminate.
      inversion H; subst. lia.
Qed.

Section LedgerNt.
  Variable L : list param.

  Lemma quiet_step v v' e nb : no_alloc e -> same_blocks v v' -> ids_ok L v nb ->
    ledger (blocks_of L v) e = Some (blocks_of L v') /\ ids_ok L v' nb.
  Proof.
    intros He Hs Hid. split; [|eapply same_blocks_ids; eauto].
    rewrite (same_blocks_of L v v' Hs). apply no_alloc_ledger. exact He.
  Qed.

  Lemma lstep_ledger_nt junk v nb o :
    ids_ok L v nb ->
    let '((v', nb'), e) := WorldThm.lstep L junk (v, nb) o in
    ledger (blocks_of L v) e = Some (blocks_of L v') /\ ids_ok L v' nb'.
  Proof.
    intros Hid. destruct o as [t| |i|i j| |n b]; cbn [WorldThm.lstep].
    - destruct (emplace_frame L v t) as [H1 H2]. destruct (emplace_back L v t) as [v' e]. cbn [fst snd] in *.
      apply quiet_step; auto.
    - unfold pop_back. destruct (destruct_elem_frame L v (vsize L v - 1)) as [H1 H2].
      destruct (destruct_elem L v (vsize L v - 1)) as [v1 e1]. cbn [fst snd] in *.
      apply quiet_step; auto. eapply same_blocks_trans; [exact H2|apply resize_frame].
    - unfold erase. destruct (destruct_elem_frame L v i) as [H1 H2].
      destruct (destruct_elem L v i) as [v1 e1]. cbn [fst snd] in *.
      destruct (move_forward_frame L v1 (i + 1) i) as [H3 H4].
      destruct (move_forward L v1 (i + 1) i) as [v2 e2]. cbn [fst snd] in *.
      apply quiet_step; auto; [apply no_alloc_app; auto|].
      eapply same_blocks_trans; [exact H2|]. eapply same_blocks_trans; [exact H4|apply resize_frame].
    - unfold erase_range.
      assert (Hd : no_alloc (snd (if all_dtriv L then (v, []) else destruct_range L v i (Z.to_nat (j - i)))) /\
                   same_blocks v (fst (if all_dtriv L then (v, []) else destruct_range L v i (Z.to_nat (j - i))))).
      { destruct (all_dtriv L); [split; [reflexivity|apply same_blocks_refl]|apply destruct_range_frame]. }
      destruct (if all_dtriv L then (v, []) else destruct_range L v i (Z.to_nat (j - i))) as [v1 e1]. cbn [fst snd] in Hd.
      destruct Hd as [H1 H2].
      assert (Hm : no_alloc (snd (if (j <? vsize L v) && negb (i =? j) then move_forward L v1 j i else (v1, []))) /\
                   same_blocks v1 (fst (if (j <? vsize L v) && negb (i =? j) then move_forward L v1 j i else (v1, [])))).
      { destruct ((j <? vsize L v) && negb (i =? j)); [apply move_forward_frame|split; [reflexivity|apply same_blocks_refl]]. }
      destruct (if (j <? vsize L v) && negb (i =? j) then move_forward L v1 j i else (v1, [])) as [v2 e2]. cbn [fst snd] in Hm.
      destruct Hm as [H3 H4].
      apply quiet_step; auto; [apply no_alloc_app; auto|].
      eapply same_blocks_trans; [exact H2|]. eapply same_blocks_trans; [exact H4|apply resize_frame].
    - unfold clear.
      assert (Hd : no_alloc (snd (if all_dtriv L then (v, []) else destruct_range L v 0 (Z.to_nat (vsize L v)))) /\
                   same_blocks v (fst (if all_dtriv L then (v, []) else destruct_range L v 0 (Z.to_nat (vsize L v))))).
      { destruct (all_dtriv L); [split; [reflexivity|apply same_blocks_refl]|apply destruct_range_frame]. }
      destruct (if all_dtriv L then (v, []) else destruct_range L v 0 (Z.to_nat (vsize L v))) as [v1 e1]. cbn [fst snd] in Hd.
      destruct Hd as [H1 H2].
      apply quiet_step; auto. eapply same_blocks_trans; [exact H2|apply resize_frame].
    - unfold reserve. destruct (v_cap v <? n).
      + pose proof (insert_into_no_alloc true true L v nb junk) as Hna.
        destruct (insert_into true true L v nb junk) as [[v1 m] e1]. cbn [snd] in Hna.
        set (u := units L (if has_varying L then needed n b (esize L (v_fixed v)) else needed_grow_fixed n b (v_stride v))).
        pose proof (reserve_ledger_core L v n u nb m Hid) as Hcore. cbv zeta in Hcore.
        destruct Hcore as [Hc1 Hc2]. split; [|exact Hc2].
        rewrite <- Hc1.
        change (EAlloc (v_aid v) (SA L) u nb :: (if has_varying L then [EAlloc (v_aid v) 8 n (S nb)] else []))
          with ([] ++ EAlloc (v_aid v) (SA L) u nb :: (if has_varying L then [EAlloc (v_aid v) 8 n (S nb)] else [])).
        cbn [app].
        set (ea := EAlloc (v_aid v) (SA L) u nb :: (if has_varying L then [EAlloc (v_aid v) 8 n (S nb)] else [])).
        apply (ledger_drop_mid e1 Hna ea).
      + cbn [ledger]. split; [reflexivity|]. eapply ids_ok_mono; [exact Hid|lia].
  Qed.

  Theorem lrun_ledger_nt junk h : forall v nb,
    ids_ok L v nb ->
    let '((v', nb'), e) := WorldThm.lrun L junk (v, nb) h in
    ledger (blocks_of L v) e = Some (blocks_of L v') /\ ids_ok L v' nb'.
  Proof.
    induction h as [|o h IH]; intros v nb Hid; cbn [WorldThm.lrun]; [split; [reflexivity|exact Hid]|].
    pose proof (lstep_ledger_nt junk v nb o Hid) as Hs.
    destruct (WorldThm.lstep L junk (v, nb) o) as [[v1 nb1] e1]. destruct Hs as [Hs1 Hs2].
    specialize (IH v1 nb1 Hs2). destruct (WorldThm.lrun L junk (v1, nb1) h) as [[v2 nb2] e2]. destruct IH as [IH1 IH2].
    split; [|exact IH2]. rewrite (ledger_app _ e1 e2 _ Hs1). exact IH1.
  Qed.

  (* construction, ANY history of operations on ANY parameter list, destruction: the ledger
     ends empty - every block was requested once and returned once with the allocator, unit
     size and count it was requested with *)
  Theorem whole_life_ledger_nt cap budget fixed aid junk h :
    let '(v0, e0) := mkvec L cap budget fixed aid junk 0%nat 1%nat in
    let '((v, nb), e) := WorldThm.lrun L junk (v0, 2%nat) h in
    ledger [] (e0 ++ e ++ destroy L v) = Some [].
  Proof.
    pose proof (mkvec_ledger L cap budget fixed aid junk 0%nat 1%nat ltac:(lia)) as H0.
    assert (Hid0 : ids_ok L (fst (mkvec L cap budget fixed aid junk 0%nat 1%nat)) 2%nat).
    { unfold mkvec, ids_ok. cbn [fst v_bid v_tbl]. destruct (has_varying L) eqn:Hv; cbn [t_bid tbl0]; repeat split; intros;
        try discriminate; repeat match goal with H : Some _ = Some _ |- _ => inversion H; subst; clear H end; lia. }
    destruct (mkvec L cap budget fixed aid junk 0%nat 1%nat) as [v0 e0]. cbn [fst snd] in *.
    pose proof (lrun_ledger_nt junk h v0 2%nat Hid0) as Hr.
    destruct (WorldThm.lrun L junk (v0, 2%nat) h) as [[v nb] e]. destruct Hr as [Hr1 (Hb & Htb & Hne & Hnt)].
    rewrite (ledger_app _ e0 _ _ H0). rewrite (ledger_app _ e _ _ Hr1).
    apply destroy_ledger; auto.
  Qed.
End LedgerNt.

(* C16 for every list: erase never calls the allocator and keeps the block *)
Theorem erase_no_alloc_nt L v i : no_alloc (snd (erase L v i)) /\ v_bid (fst (erase L v i)) = v_bid v.
Proof.
  unfold erase. destruct (destruct_elem_frame L v i) as [H1 H2].
  destruct (destruct_elem L v i) as [v1 e1]. cbn [fst snd] in *.
  destruct (move_forward_frame L v1 (i + 1) i) as [H3 H4].
  destruct (move_forward L v1 (i + 1) i) as [v2 e2]. cbn [fst snd] in *.
  split; [apply no_alloc_app; auto|]. rewrite resize_bid. destruct H2 as (A & _). destruct H4 as (B & _). congruence.
Qed.

Theorem erase_range_no_alloc_nt L v i j : no_alloc (snd (erase_range L v i j)) /\ v_bid (fst (erase_range L v i j)) = v_bid v.
Proof.
  unfold erase_range.
  assert (Hd : no_alloc (snd (if all_dtriv L then (v, []) else destruct_range L v i (Z.to_nat (j - i)))) /\
               same_blocks v (fst (if all_dtriv L then (v, []) else destruct_range L v i (Z.to_nat (j - i))))).
  { destruct (all_dtriv L); [split; [reflexivity|apply same_blocks_refl]|apply destruct_range_frame]. }
  destruct (if all_dtriv L then (v, []) else destruct_range L v i (Z.to_nat (j - i))) as [v1 e1]. cbn [fst snd] in Hd.
  destruct Hd as [H1 H2].
  assert (Hm : no_alloc (snd (if (j <? vsize L v) && negb (i =? j) then move_forward L v1 j i else (v1, []))) /\
               same_blocks v1 (fst (if (j <? vsize L v) && negb (i =? j) then move_forward L v1 j i else (v1, [])))).
  { destruct ((j <? vsize L v) && negb (i =? j)); [apply move_forward_frame|split; [reflexivity|apply same_blocks_refl]]. }
  destruct (if (j <? vsize L v) && negb (i =? j) then move_forward L v1 j i else (v1, [])) as [v2 e2]. cbn [fst snd] in Hm.
  destruct Hm as [H3 H4]. cbn [fst snd].
  split; [apply no_alloc_app; auto|]. rewrite resize_bid. destruct H2 as (A & _). destruct H4 as (B & _). congruence.
Qed.
