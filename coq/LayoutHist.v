(* LayoutHist.v — the layout properties (C03 alignment, C04 order / containment / exact counts)
   in every REPRESENTED state, hence after every valid history.
   LayoutThm proves them for the placement function; here they are stated for what the library
   itself computes when element i of a vector is accessed - the field table Proxy.vfl (the
   loaded reference: address and object count of every field) - in any state that represents
   a list of tuples, and then along histories (NtRefine.rep_every_history_nt). *)
From Coq Require Import ZArith List Bool Lia.
From Cntgs Require Import Base BaseLemmas Layout LayoutThm Mem MemLemmas Vector Proxy Spec Rep ElemLemmas
     Ordered Refine CompareThm RunsThm ElemThm CmpContent NtRefine RefUpdate.
Import ListNotations.
Local Open Scope Z_scope.

Lemma map_fst_combine_ {A B} : forall (l1 : list A) (l2 : list B),
  length l1 = length l2 -> map fst (combine l1 l2) = l1.
Proof.
  induction l1 as [|x l1 IH]; intros [|y l2] H; cbn [combine map]; try discriminate; [reflexivity|].
  cbn [fst]. f_equal. apply IH. cbn [length] in H. lia.
Qed.

Section RepLayout.
  Variable L : list param.
  Hypothesis Hwf : wf_plist L = true.
  Variables (v : vec) (l : list tuple) (offs : list Z).
  Hypothesis R : RepO L v l offs.

  Lemma fst_ref_fl t a fc : tuple_ok L fc 0 t -> map fst (ref_fl L t a) = fst (place L (cnts_of t) a).
  Proof.
    intros Ht. unfold ref_fl. apply map_fst_combine_. unfold place.
    pose proof (cnts_length L t fc Ht) as Hc.
    rewrite place_from_fst_length; [symmetry; exact Hc|rewrite prevs_length; lia|exact Hc].
  Qed.

  (* what is accessed as element i: the element's offset, the loaded field table, its tuple *)
  Theorem rep_element_layout i : (i < length l)%nat ->
    let t := nth i l [] in
    let a := eaddr L v (Z.of_nat i) in
    let fl := vfl L v (Z.of_nat i) in
    (* C03: the element starts at a multiple of the storage alignment, every field at a
       multiple of its parameter's alignment *)
    0 <= a /\ (SA L | a) /\
    Forall2 (fun p x => (pal p | x)) L (map fst fl) /\
    (* C04: every field has exactly the object count of the stored tuple ... *)
    map snd fl = cnts_of t /\
    (* ... the first field starts at the element start, the byte extents of the fields are
       ordered, pairwise disjoint and inside [data_begin(), data_end()) of the element ... *)
    hd a (map fst fl) = a /\
    ordered_from a (extents L (cnts_of t) (map fst fl)) (elem_end L a t) /\
    (* ... the element lies inside [vector.data_begin(), vector.data_end()) and before the
       next element *)
    elem_end L a t <= dend L v /\
    (forall k, (i < k < length l)%nat -> elem_end L a t <= eaddr L v (Z.of_nat k)).
  Proof.
    intros Hi. cbv zeta.
    destruct (rep_ref L Hwf v l offs i R Hi) as (Ht & He & Hf).
    rewrite (rep_eaddr L v l offs i R Hi), Hf.
    destruct (off_ok L Hwf v l offs R i Hi) as [Ha0 HaS].
    pose proof (tuple_ok_cnt_ok L _ _ _ Ht) as Hc.
    rewrite (fst_ref_fl _ _ _ Ht), (ref_fl_snd L _ _ _ Ht).
    split; [exact Ha0|]. split; [exact HaS|].
    split; [exact (place_aligned L _ _ Hwf Hc Ha0 HaS)|].
    split; [reflexivity|].
    split; [exact (place_first L _ _ Hwf Hc Ha0 HaS)|].
    split; [exact (place_ordered L _ _ Hwf Hc Ha0 HaS)|].
    pose proof (eo_length L _ _ _ _ (r_order _ _ _ _ R)) as Hlen.
    split.
    - pose proof (eo_bounds L Hwf _ _ _ _ (r_order _ _ _ _ R)) as Hb.
      pose proof (Forall2_nth_ _ offs l 0 [] i Hb ltac:(rewrite Hlen; exact Hi)) as H. cbn beta in H. tauto.
    - intros k Hk. rewrite (rep_eaddr L v l offs k R) by lia.
      apply (eo_pair L Hwf _ _ _ _ (r_order _ _ _ _ R) i k). rewrite Hlen. lia.
  Qed.
End RepLayout.

(* after EVERY valid history from construction, for every well-formed list *)
Theorem layout_every_history : forall L cap budget fixed aid junk bid tbid h,
  wf_plist L = true -> 0 <= cap -> Forall (fun c => 0 <= c) fixed ->
  let v0 := fst (mkvec L cap budget fixed aid junk bid tbid) in
  let s0 := {| s_cap := cap; s_elems := [] |} in
  shist_valid L (fixed_counts L fixed) s0 h -> nt_hist_okx L s0 h ->
  let v := vrun L junk v0 h in
  let l := s_elems (srun s0 h) in
  forall i, (i < length l)%nat ->
    let t := nth i l [] in
    let a := eaddr L v (Z.of_nat i) in
    let fl := vfl L v (Z.of_nat i) in
    0 <= a /\ (SA L | a) /\
    Forall2 (fun p x => (pal p | x)) L (map fst fl) /\
    map snd fl = cnts_of t /\
    hd a (map fst fl) = a /\
    ordered_from a (extents L (cnts_of t) (map fst fl)) (elem_end L a t) /\
    elem_end L a t <= dend L v /\
    (forall k, (i < k < length l)%nat -> elem_end L a t <= eaddr L v (Z.of_nat k)).
Proof.
  intros L cap budget fixed aid junk bid tbid h Hwf Hcap Hfx. cbv zeta. intros Hv Hn i Hi.
  destruct (rep_every_history_nt L cap budget fixed aid junk bid tbid h Hwf Hcap Hfx Hv Hn) as [offs R].
  exact (rep_element_layout L Hwf _ _ offs R i Hi).
Qed.

(* ---------- empty states (C18) ---------- *)
Lemma rep_empty L v : wf_plist L = true -> Rep L v [] -> vsize L v = 0 /\ dend L v = 0.
Proof.
  intros Hwf [offs R].
  pose proof (eo_length L _ _ _ _ (r_order _ _ _ _ R)) as Hl. destruct offs; [|discriminate].
  split; [exact (rep_vsize L v [] [] R)|].
  pose proof (r_tight _ _ _ _ R) as HT. cbn [elems_tight] in HT. destruct HT as [H|H]; [exact H|].
  rewrite H. unfold first_align, align_if.
  destruct (prev_tr L (length L) <? SA L); [|reflexivity].
  apply align_up_id; [|apply Z.divide_0_r].
  apply pow2_pos. apply SA_pow2; [apply wf_plist_Forall; exact Hwf|apply wf_plist_nonempty; exact Hwf].
Qed.

(* however a vector was emptied - never filled, pop_back / erase / clear after ANY history -
   it has size 0 and data_end() = data_begin() (offset 0), and it represents the empty list:
   every further valid history is covered by the refinement theorem again *)
Theorem emptied_after_every_history : forall L cap budget fixed aid junk bid tbid h,
  wf_plist L = true -> 0 <= cap -> Forall (fun c => 0 <= c) fixed ->
  let v0 := fst (mkvec L cap budget fixed aid junk bid tbid) in
  let s0 := {| s_cap := cap; s_elems := [] |} in
  shist_valid L (fixed_counts L fixed) s0 h -> nt_hist_okx L s0 h ->
  s_elems (srun s0 h) = [] ->
  let v := vrun L junk v0 h in
  Rep L v [] /\ vsize L v = 0 /\ dend L v = 0.
Proof.
  intros L cap budget fixed aid junk bid tbid h Hwf Hcap Hfx. cbv zeta. intros Hv Hn He.
  pose proof (rep_every_history_nt L cap budget fixed aid junk bid tbid h Hwf Hcap Hfx Hv Hn) as R.
  cbv zeta in R. rewrite He in R. split; [exact R|]. exact (rep_empty L _ Hwf R).
Qed.
