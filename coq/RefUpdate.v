(* RefUpdate.v — assignment and swap through element references of ONE vector refine the
   corresponding updates of the abstract list (C11, vector level).
   In every represented state (Rep: what every valid history reaches, C01), for two different
   elements i, j with equal field sizes:
     v[i] = v[j]        represents   l with element i replaced by element j,
     swap(v[i], v[j])   represents   l with elements i and j exchanged,
   at the same offsets - no other element, no bookkeeping, no byte outside the two elements
   changes.  Built on SameVec.v (the one-memory run is the glued two-memory run). *)
From Coq Require Import ZArith List Bool Lia.
From Cntgs Require Import Base BaseLemmas Layout LayoutThm Mem MemLemmas Vector Proxy Spec Rep ElemLemmas
     Ordered Refine CompareThm RunsThm ElemThm CmpContent AssignThm MoveThm SwapThm SameVec World.
Import ListNotations.
Local Open Scope Z_scope.

Lemma Forall2_of_nth {X Y} (P : X -> Y -> Prop) d1 d2 : forall (l1 : list X) (l2 : list Y),
  length l1 = length l2 -> (forall k, (k < length l1)%nat -> P (nth k l1 d1) (nth k l2 d2)) -> Forall2 P l1 l2.
Proof.
  induction l1 as [|x l1 IH]; intros [|y l2] Hl H; cbn [length] in Hl; try discriminate; constructor.
  - exact (H O ltac:(cbn [length]; lia)).
  - apply IH; [lia|]. intros k Hk. exact (H (S k) ltac:(cbn [length]; lia)).
Qed.

Lemma Forall2_len {X Y} (P : X -> Y -> Prop) : forall (l1 : list X) (l2 : list Y), Forall2 P l1 l2 -> length l1 = length l2.
Proof. induction 1; cbn [length]; congruence. Qed.

Lemma Forall_of_nth {X} (P : X -> Prop) d : forall (l : list X),
  (forall k, (k < length l)%nat -> P (nth k l d)) -> Forall P l.
Proof.
  induction l as [|x l IH]; intros H; constructor.
  - exact (H O ltac:(cbn [length]; lia)).
  - apply IH. intros k Hk. exact (H (S k) ltac:(cbn [length]; lia)).
Qed.

Section Shape.
  Variable L : list param.
  Hypothesis Hwf : wf_plist L = true.

  (* same field sizes, element by element *)
  Definition same_shape (l l' : list tuple) : Prop := Forall2 (fun t t' => cnts_of t' = cnts_of t) l l'.

  Lemma elem_end_cnts a t t' : cnts_of t' = cnts_of t -> elem_end L a t' = elem_end L a t.
  Proof. intros H. unfold elem_end. rewrite H. reflexivity. Qed.

  Lemma eo_same_shape : forall offs lo l l' hi, same_shape l l' ->
    elems_ordered L lo offs l hi -> elems_ordered L lo offs l' hi.
  Proof.
    induction offs as [|a offs IH]; intros lo l l' hi Hs H; destruct l as [|t l]; cbn [elems_ordered] in H; try contradiction.
    - inversion Hs; subst. exact H.
    - inversion Hs as [|? t' ? l'' Ht Hr]; subst. cbn [elems_ordered].
      destruct H as (H1 & H2 & H3). repeat split; auto. rewrite (elem_end_cnts a t t' Ht). eapply IH; eauto.
  Qed.

  Lemma et_same_shape : forall offs lo l l' hi, same_shape l l' ->
    elems_tight L lo offs l hi -> elems_tight L lo offs l' hi.
  Proof.
    induction offs as [|a offs IH]; intros lo l l' hi Hs H; destruct l as [|t l]; cbn [elems_tight] in H; try contradiction.
    - inversion Hs; subst. exact H.
    - inversion Hs as [|? t' ? l'' Ht Hr]; subst. cbn [elems_tight].
      destruct H as (H1 & H2). split; auto. rewrite (elem_end_cnts a t t' Ht). eapply IH; eauto.
  Qed.

  Lemma same_shape_length l l' : same_shape l l' -> length l' = length l.
  Proof. intros H. symmetry. eapply Forall2_len; eauto. Qed.

  (* a vector whose memory is replaced represents any list of the same shape whose tuples are
     found at the same offsets of the new memory *)
  Lemma rep_same_shape v l offs l' m' : RepO L v l offs -> same_shape l l' ->
    Forall (tuple_ok L (fixed_counts L (v_fixed v)) 0) l' ->
    Forall2 (fun a t => elem_at L m' a t) offs l' ->
    RepO L (set_mem v m') l' offs.
  Proof.
    intros R Hs Ht He. pose proof (same_shape_length l l' Hs) as Hl.
    constructor.
    - exact Ht.
    - exact He.
    - change (dend L (set_mem v m')) with (dend L v). eapply eo_same_shape; [exact Hs|exact (r_order _ _ _ _ R)].
    - rewrite Hl. exact (r_cap _ _ _ _ R).
    - pose proof (r_loc _ _ _ _ R) as H. cbn [set_mem v_tbl v_count v_stride v_last v_fixed v_cap]. rewrite Hl. exact H.
    - change (dend L (set_mem v m')) with (dend L v). eapply et_same_shape; [exact Hs|exact (r_tight _ _ _ _ R)].
  Qed.

  (* earlier elements end before later ones start *)
  Lemma eo_pair : forall offs lo l hi, elems_ordered L lo offs l hi ->
    forall a b, (a < b < length offs)%nat -> elem_end L (nth a offs 0) (nth a l []) <= nth b offs 0.
  Proof.
    induction offs as [|x offs IH]; intros lo l hi H a b Hab; [cbn [length] in Hab; lia|].
    destruct l as [|t l]; cbn [elems_ordered] in H; [contradiction|]. destruct H as (H1 & H2 & H3).
    destruct b as [|b]; [lia|]. destruct a as [|a]; cbn [nth].
    - pose proof (eo_bounds L Hwf _ _ _ _ H3) as Hb. pose proof (eo_length L _ _ _ _ H3) as Hl.
      pose proof (Forall2_nth_ _ offs l 0 [] b Hb ltac:(cbn [length] in Hab; lia)) as Hn. cbn beta in Hn. lia.
    - apply (IH _ _ _ H3). cbn [length] in Hab. lia.
  Qed.

  Lemma upd_nth {X} (d : X) n x (l : list X) k : (n < length l)%nat ->
    nth k (upd n x l) d = if Nat.eqb k n then x else nth k l d.
  Proof.
    intros Hn. destruct (Nat.eqb_spec k n) as [->|Hne].
    - apply upd_nth_same. exact Hn.
    - apply upd_nth_other. congruence.
  Qed.
End Shape.

Section RefinesUpdate.
  Variable L : list param.
  Hypothesis Hwf : wf_plist L = true.
  Variables (v : vec) (l : list tuple) (offs : list Z).
  Hypothesis R : RepO L v l offs.
  Variables (i j : nat).
  Hypothesis Hi : (i < length l)%nat.
  Hypothesis Hj : (j < length l)%nat.
  Hypothesis Hij : i <> j.
  (* equal field sizes (automatic for lists without VaryingSize parameter) *)
  Hypothesis Hc : cnts_of (nth i l []) = cnts_of (nth j l []).

  Let ti := nth i l [].
  Let tj := nth j l [].
  Let ai := nth i offs 0.
  Let aj := nth j offs 0.
  Let fc := fixed_counts L (v_fixed v).
  Let m := v_mem v.
  Let len := elem_end L aj tj - aj.

  Lemma Hlen : length offs = length l.
  Proof. exact (eo_length L _ _ _ _ (r_order _ _ _ _ R)). Qed.

  Lemma off_ok k : (k < length l)%nat -> 0 <= nth k offs 0 /\ (SA L | nth k offs 0).
  Proof.
    intros Hk. pose proof (eo_bounds L Hwf _ _ _ _ (r_order _ _ _ _ R)) as Hb.
    pose proof (Forall2_nth_ _ offs l 0 [] k Hb ltac:(rewrite Hlen; exact Hk)) as H. cbn beta in H. tauto.
  Qed.

  Lemma end_i : elem_end L ai ti = ai + len.
  Proof.
    unfold len. rewrite (elem_end_cnts L ai tj ti Hc).
    replace ai with (aj + (ai - aj)) at 1 by lia. rewrite (elem_end_shift L Hwf); [lia|].
    apply Z.divide_sub_r; [exact (proj2 (off_ok i Hi))|exact (proj2 (off_ok j Hj))].
  Qed.

  Lemma disj : aj + len <= ai \/ ai + len <= aj.
  Proof.
    rewrite <- end_i. unfold len. replace (aj + (elem_end L aj tj - aj)) with (elem_end L aj tj) by lia.
    destruct (Nat.lt_ge_cases i j) as [Hlt|Hge].
    - right. apply (eo_pair L Hwf _ _ _ _ (r_order _ _ _ _ R) i j). rewrite Hlen. lia.
    - left. apply (eo_pair L Hwf _ _ _ _ (r_order _ _ _ _ R) j i). rewrite Hlen. lia.
  Qed.

  (* an element other than i and j lies off the extents of both *)
  Lemma other_off k z : (k < length l)%nat -> k <> i ->
    nth k offs 0 <= z < elem_end L (nth k offs 0) (nth k l []) -> ~ (ai <= z < ai + len).
  Proof.
    intros Hk Hki Hz. rewrite <- end_i.
    destruct (Nat.lt_ge_cases k i) as [Hlt|Hge].
    - pose proof (eo_pair L Hwf _ _ _ _ (r_order _ _ _ _ R) k i ltac:(rewrite Hlen; lia)). fold ai in H. lia.
    - pose proof (eo_pair L Hwf _ _ _ _ (r_order _ _ _ _ R) i k ltac:(rewrite Hlen; lia)). fold ai ti in H. lia.
  Qed.
  Lemma other_off_j k z : (k < length l)%nat -> k <> j ->
    nth k offs 0 <= z < elem_end L (nth k offs 0) (nth k l []) -> ~ (aj <= z < aj + len).
  Proof.
    intros Hk Hkj Hz. unfold len. replace (aj + (elem_end L aj tj - aj)) with (elem_end L aj tj) by lia.
    destruct (Nat.lt_ge_cases k j) as [Hlt|Hge].
    - pose proof (eo_pair L Hwf _ _ _ _ (r_order _ _ _ _ R) k j ltac:(rewrite Hlen; lia)). fold aj in H. lia.
    - pose proof (eo_pair L Hwf _ _ _ _ (r_order _ _ _ _ R) j k ltac:(rewrite Hlen; lia)). fold aj tj in H. lia.
  Qed.

  Lemma shape_upd t : cnts_of t = cnts_of ti -> same_shape l (upd i t l).
  Proof.
    intros Ht. apply (Forall2_of_nth _ ([] : tuple) ([] : tuple)); [rewrite upd_length; reflexivity|].
    intros k Hk. cbn beta. rewrite (upd_nth ([] : tuple) i t l k Hi). destruct (Nat.eqb_spec k i) as [->|_]; [exact Ht|reflexivity].
  Qed.

  Lemma tuples_nth k : (k < length l)%nat -> tuple_ok L fc 0 (nth k l []).
  Proof. intros Hk. exact (proj1 (rep_ref L Hwf v l offs k R Hk)). Qed.

  (* ---------- v[i] = v[j] ---------- *)
  Theorem ref_assign_refines_update :
    let r := ref_assign false L true v (Z.of_nat i) v (Z.of_nat j) in
    RepO L (fst (fst r)) (upd i tj l) offs /\
    (forall a, v_mem (snd (fst r)) a = v_mem (fst (fst r)) a).
  Proof.
    cbv zeta. unfold ref_assign.
    destruct (rep_ref L Hwf v l offs i R Hi) as (Hti & Hei & Hfi).
    destruct (rep_ref L Hwf v l offs j R Hj) as (Htj & Hej & Hfj).
    rewrite Hfi, Hfj. fold ti tj ai aj.
    pose proof (same_vector_copy_assign L Hwf tj ti fc fc Htj Hti Hc m aj ai (off_ok j Hj) (off_ok i Hi) Hej disj
                  (bidn (v_bid v)) (bidn (v_bid v))) as H.
    cbv zeta in H. fold m.
    destruct (assign_all false L (bidn (v_bid v)) (bidn (v_bid v)) (ref_fl L tj aj) (ref_fl L ti ai)
                         {| m_s := m; m_d := m; m_same := true |} (seq 0 (length L))) as [x evs].
    cbn [fst snd] in *. destruct H as (Hsd & Hel & Hfr). fold len in Hfr.
    split; [|intros a; cbn [set_mem v_mem]; apply Hsd].
    apply (rep_same_shape L v l offs (upd i tj l) (m_d x) R).
    - apply shape_upd. symmetry. exact Hc.
    - apply (Forall_of_nth _ ([] : tuple)). intros k Hk. rewrite upd_length in Hk. rewrite (upd_nth ([] : tuple) i tj l k Hi).
      destruct (Nat.eqb_spec k i) as [->|_]; [exact Htj|exact (tuples_nth k Hk)].
    - apply (Forall2_of_nth _ 0 ([] : tuple)); [rewrite upd_length; exact Hlen|].
      intros k Hk. rewrite Hlen in Hk. cbn beta. rewrite (upd_nth ([] : tuple) i tj l k Hi).
      destruct (Nat.eqb_spec k i) as [->|Hne]; [exact Hel|].
      destruct (rep_ref L Hwf v l offs k R Hk) as (Htk & Hek & _).
      apply (elem_at_ext L Hwf m (m_d x) _ _ fc Htk); [|exact Hek].
      intros z Hz. apply Hfr. exact (other_off k z Hk Hne Hz).
  Qed.

  (* ---------- swap(v[i], v[j]) ---------- *)
  Theorem ref_swap_refines_exchange :
    let r := ref_swap L true v (Z.of_nat i) v (Z.of_nat j) in
    RepO L (fst (fst r)) (upd i tj (upd j ti l)) offs /\
    (forall a, v_mem (snd (fst r)) a = v_mem (fst (fst r)) a).
  Proof.
    cbv zeta. unfold ref_swap.
    destruct (rep_ref L Hwf v l offs i R Hi) as (Hti & Hei & Hfi).
    destruct (rep_ref L Hwf v l offs j R Hj) as (Htj & Hej & Hfj).
    rewrite Hfi, Hfj. fold ti tj ai aj.
    pose proof (same_vector_swap L Hwf tj ti fc fc Htj Hti Hc m aj ai (off_ok j Hj) (off_ok i Hi) Hej disj Hei
                  (bidn (v_bid v)) (bidn (v_bid v))) as H.
    cbv zeta in H. fold m.
    destruct (swap_all L (bidn (v_bid v)) (bidn (v_bid v)) (ref_fl L tj aj) (ref_fl L ti ai)
                       {| m_s := m; m_d := m; m_same := true |} (seq 0 (length L))) as [x evs].
    cbn [fst snd] in *. destruct H as (Hsd & Helj & Heli & Hfr). fold len in Hfr.
    split; [|intros a; cbn [set_mem v_mem]; apply Hsd].
    assert (Hj' : (j < length (upd j ti l))%nat) by (rewrite upd_length; exact Hj).
    assert (Hi' : (i < length (upd j ti l))%nat) by (rewrite upd_length; exact Hi).
    apply (rep_same_shape L v l offs (upd i tj (upd j ti l)) (m_d x) R).
    - apply (Forall2_of_nth _ ([] : tuple) ([] : tuple)); [rewrite !upd_length; reflexivity|].
      intros k Hk. cbn beta. rewrite (upd_nth ([] : tuple) i tj _ k Hi'), (upd_nth ([] : tuple) j ti l k Hj).
      destruct (Nat.eqb_spec k i) as [->|_]; [symmetry; exact Hc|].
      destruct (Nat.eqb_spec k j) as [->|_]; [exact Hc|reflexivity].
    - apply (Forall_of_nth _ ([] : tuple)). intros k Hk. rewrite !upd_length in Hk.
      rewrite (upd_nth ([] : tuple) i tj _ k Hi'), (upd_nth ([] : tuple) j ti l k Hj).
      destruct (Nat.eqb_spec k i) as [->|_]; [exact Htj|].
      destruct (Nat.eqb_spec k j) as [->|_]; [exact Hti|exact (tuples_nth k Hk)].
    - apply (Forall2_of_nth _ 0 ([] : tuple)); [rewrite !upd_length; exact Hlen|].
      intros k Hk. rewrite Hlen in Hk. cbn beta. rewrite (upd_nth ([] : tuple) i tj _ k Hi'), (upd_nth ([] : tuple) j ti l k Hj).
      destruct (Nat.eqb_spec k i) as [->|Hni]; [exact Heli|].
      destruct (Nat.eqb_spec k j) as [->|Hnj]; [exact Helj|].
      destruct (rep_ref L Hwf v l offs k R Hk) as (Htk & Hek & _).
      apply (elem_at_ext L Hwf m (m_d x) _ _ fc Htk); [|exact Hek].
      intros z Hz. apply Hfr; [exact (other_off_j k z Hk Hnj Hz)|exact (other_off k z Hk Hni Hz)].
  Qed.
End RefinesUpdate.

(* ---------- self-assignment / self-swap leave the represented list alone ---------- *)
Lemma rep_mem_ext L : wf_plist L = true -> forall v l offs m', RepO L v l offs ->
  (forall z, m' z = v_mem v z) -> RepO L (set_mem v m') l offs.
Proof.
  intros Hwf v l offs m' R Hm.
  apply (rep_same_shape L v l offs l m' R).
  - apply (Forall2_of_nth _ ([] : tuple) ([] : tuple)); [reflexivity|]. intros k Hk. reflexivity.
  - exact (r_tuples _ _ _ _ R).
  - pose proof (eo_length L _ _ _ _ (r_order _ _ _ _ R)) as Hlen.
    apply (Forall2_of_nth _ 0 ([] : tuple)); [exact Hlen|]. intros k Hk. rewrite Hlen in Hk.
    destruct (rep_ref L Hwf v l offs k R Hk) as (Htk & Hek & _).
    apply (elem_at_ext L Hwf (v_mem v) m' _ _ _ Htk); [|exact Hek]. intros z _. apply Hm.
Qed.

Theorem self_assign_refines_identity L : wf_plist L = true -> forall v l offs i mv, RepO L v l offs ->
  let r := ref_assign mv L true v i v i in
  RepO L (fst (fst r)) l offs /\ RepO L (snd (fst r)) l offs.
Proof.
  intros Hwf v l offs i mv R. cbv zeta. unfold ref_assign.
  pose proof (self_assignment_changes_nothing mv L (bidn (v_bid v)) (bidn (v_bid v)) (vfl L v i) (v_mem v) (seq 0 (length L))) as H.
  cbv zeta in H.
  destruct (assign_all mv L (bidn (v_bid v)) (bidn (v_bid v)) (vfl L v i) (vfl L v i) _ (seq 0 (length L))) as [x evs].
  cbn [fst snd] in *. destruct H as [H1 H2]. split; apply (rep_mem_ext L Hwf); assumption.
Qed.

Theorem self_swap_refines_identity L : wf_plist L = true -> forall v l offs i, RepO L v l offs ->
  let r := ref_swap L true v i v i in
  RepO L (fst (fst r)) l offs /\ RepO L (snd (fst r)) l offs.
Proof.
  intros Hwf v l offs i R. cbv zeta. unfold ref_swap.
  pose proof (self_swap_changes_nothing L (bidn (v_bid v)) (bidn (v_bid v)) (vfl L v i) (v_mem v) (seq 0 (length L))) as H.
  cbv zeta in H.
  destruct (swap_all L (bidn (v_bid v)) (bidn (v_bid v)) (vfl L v i) (vfl L v i) _ (seq 0 (length L))) as [x evs].
  cbn [fst snd] in *. destruct H as [H1 H2]. split; apply (rep_mem_ext L Hwf); assumption.
Qed.

(* ---------- lists without a VaryingSize parameter: all elements of a vector have equal field
   sizes, so any two of them can be assigned to / swapped with each other ---------- *)
Lemma cnts_no_varying : forall L fc p p' t t', has_varying L = false ->
  tuple_ok L fc p t -> tuple_ok L fc p' t' -> cnts_of t = cnts_of t'.
Proof.
  induction L as [|q L IH]; intros fc p p' t t' Hv Ht Ht'.
  - destruct t; destruct t'; try reflexivity; destruct fc; contradiction.
  - destruct fc as [|c fc]; [destruct t; contradiction|].
    destruct t as [|f t]; [contradiction|]. destruct t' as [|f' t']; [contradiction|].
    cbn [tuple_ok] in Ht, Ht'. destruct Ht as (_ & Hl & Hr). destruct Ht' as (_ & Hl' & Hr').
    unfold has_varying in Hv. cbn [existsb] in Hv. apply orb_false_iff in Hv. destruct Hv as [Hq Hv].
    unfold cnts_of. cbn [map]. fold (cnts_of t) (cnts_of t'). f_equal.
    + unfold is_varying in Hq. destruct (pk q); cbn in Hq; try discriminate; congruence.
    + exact (IH fc _ _ t t' Hv Hr Hr').
Qed.

Theorem ref_assign_refines_update_fixed L : wf_plist L = true -> has_varying L = false ->
  forall v l offs i j, RepO L v l offs -> (i < length l)%nat -> (j < length l)%nat -> i <> j ->
  let r := ref_assign false L true v (Z.of_nat i) v (Z.of_nat j) in
  RepO L (fst (fst r)) (upd i (nth j l []) l) offs.
Proof.
  intros Hwf Hv v l offs i j R Hi Hj Hij.
  assert (Hc : cnts_of (nth i l []) = cnts_of (nth j l [])).
  { apply (cnts_no_varying L (fixed_counts L (v_fixed v)) 0 0); [exact Hv| |].
    - exact (proj1 (rep_ref L Hwf v l offs i R Hi)).
    - exact (proj1 (rep_ref L Hwf v l offs j R Hj)). }
  exact (proj1 (ref_assign_refines_update L Hwf v l offs R i j Hi Hj Hij Hc)).
Qed.

Theorem ref_swap_refines_exchange_fixed L : wf_plist L = true -> has_varying L = false ->
  forall v l offs i j, RepO L v l offs -> (i < length l)%nat -> (j < length l)%nat -> i <> j ->
  let r := ref_swap L true v (Z.of_nat i) v (Z.of_nat j) in
  RepO L (fst (fst r)) (upd i (nth j l []) (upd j (nth i l []) l)) offs.
Proof.
  intros Hwf Hv v l offs i j R Hi Hj Hij.
  assert (Hc : cnts_of (nth i l []) = cnts_of (nth j l [])).
  { apply (cnts_no_varying L (fixed_counts L (v_fixed v)) 0 0); [exact Hv| |].
    - exact (proj1 (rep_ref L Hwf v l offs i R Hi)).
    - exact (proj1 (rep_ref L Hwf v l offs j R Hj)). }
  exact (proj1 (ref_swap_refines_exchange L Hwf v l offs R i j Hi Hj Hij Hc)).
Qed.

(* ---------- sequences of swaps within one vector: std::reverse, std::rotate, std::swap_ranges
   (World.swaps: the iter_swap sequences libstdc++ performs for random-access iterators) ---------- *)
Definition lswap (l : list tuple) (ij : nat * nat) : list tuple :=
  upd (fst ij) (nth (snd ij) l []) (upd (snd ij) (nth (fst ij) l []) l).

Lemma lswap_length l ij : length (lswap l ij) = length l.
Proof. unfold lswap. rewrite !upd_length. reflexivity. Qed.

Theorem swaps_refine_exchanges L : wf_plist L = true -> has_varying L = false ->
  forall (ps : list (nat * nat)) n v l offs, RepO L v l offs -> length l = n ->
  Forall (fun ij => (fst ij < n)%nat /\ (snd ij < n)%nat /\ fst ij <> snd ij) ps ->
  let zs := map (fun ij => (Z.of_nat (fst ij), Z.of_nat (snd ij))) ps in
  RepO L (fst (swaps L true v v zs)) (fold_left lswap ps l) offs.
Proof.
  intros Hwf Hv. induction ps as [|[i j] ps IH]; intros n v l offs R Hn Hok; cbv zeta; [exact R|].
  cbn [map fst snd swaps fold_left].
  inversion Hok as [|? ? (Hi & Hj & Hij) Hrest]; subst. cbn [fst snd] in *.
  pose proof (ref_swap_refines_exchange_fixed L Hwf Hv v l offs i j R Hi Hj Hij) as R1. cbv zeta in R1.
  destruct (ref_swap L true v (Z.of_nat i) v (Z.of_nat j)) as [[va1 vb1] e]. cbn [fst] in R1.
  apply (IH (length l) va1 (lswap l (i, j)) offs R1); [apply lswap_length|exact Hrest].
Qed.

(* std::reverse(begin + a, begin + c) *)
Definition rev_pairs_nat (a c : nat) : list (nat * nat) :=
  map (fun t => (a + t, c - 1 - t)%nat) (seq 0 ((c - a) / 2)).

Lemma rev_pairs_nat_Z a c : (a <= c)%nat ->
  map (fun ij => (Z.of_nat (fst ij), Z.of_nat (snd ij))) (rev_pairs_nat a c) = rev_pairs (Z.of_nat a) (Z.of_nat c).
Proof.
  intros Hac. unfold rev_pairs_nat, rev_pairs. rewrite map_map.
  assert (Hn : Z.to_nat ((Z.of_nat c - Z.of_nat a) / 2) = ((c - a) / 2)%nat).
  { rewrite <- Nat2Z.inj_sub by exact Hac. change 2 with (Z.of_nat 2). rewrite <- Nat2Z.inj_div. apply Nat2Z.id. }
  rewrite Hn. apply map_ext_in. intros t Ht. apply in_seq in Ht. cbn [fst snd].
  assert (H2 : (2 * ((c - a) / 2) <= c - a)%nat) by (apply Nat.mul_div_le; lia).
  f_equal; lia.
Qed.

Lemma rev_pairs_nat_valid a c n : (a <= c)%nat -> (c <= n)%nat ->
  Forall (fun ij => (fst ij < n)%nat /\ (snd ij < n)%nat /\ fst ij <> snd ij) (rev_pairs_nat a c).
Proof.
  intros Hac Hcn. unfold rev_pairs_nat. apply Forall_forall. intros ij Hin. apply in_map_iff in Hin.
  destruct Hin as (t & <- & Ht). apply in_seq in Ht. cbn [fst snd].
  assert (H2 : (2 * ((c - a) / 2) <= c - a)%nat) by (apply Nat.mul_div_le; lia). lia.
Qed.

Theorem reverse_refines L : wf_plist L = true -> has_varying L = false ->
  forall v l offs a c, RepO L v l offs -> (a <= c)%nat -> (c <= length l)%nat ->
  RepO L (fst (swaps L true v v (rev_pairs (Z.of_nat a) (Z.of_nat c)))) (fold_left lswap (rev_pairs_nat a c) l) offs.
Proof.
  intros Hwf Hv v l offs a c R Hac Hcl. rewrite <- (rev_pairs_nat_Z a c Hac).
  exact (swaps_refine_exchanges L Hwf Hv (rev_pairs_nat a c) (length l) v l offs R eq_refl
           (rev_pairs_nat_valid a c (length l) Hac Hcl)).
Qed.

(* the exchanges of std::reverse do reverse the segment (an instance; lswap is list surgery only) *)
Example reverse_exchanges_reverse :
  fold_left lswap (rev_pairs_nat 1 6) [[[[0]]]; [[[1]]]; [[[2]]]; [[[3]]]; [[[4]]]; [[[5]]]; [[[6]]]] =
  [[[[0]]]; [[[5]]]; [[[4]]]; [[[3]]]; [[[2]]]; [[[1]]]; [[[6]]]].
Proof. reflexivity. Qed.

Lemma nth_lswap (l : list tuple) i j k : (i < length l)%nat -> (j < length l)%nat ->
  nth k (lswap l (i, j)) [] = if Nat.eqb k i then nth j l [] else if Nat.eqb k j then nth i l [] else nth k l [].
Proof.
  intros Hi Hj. unfold lswap. cbn [fst snd].
  rewrite (upd_nth ([] : tuple) i _ _ k) by (rewrite upd_length; exact Hi).
  destruct (Nat.eqb k i); [reflexivity|]. apply (upd_nth ([] : tuple) j _ l k Hj).
Qed.

(* the result of the exchanges, element by element: inside [a, c) position k holds what position
   a + c - 1 - k held, everything else stays *)
Lemma fold_rev_nth (l : list tuple) a c : (a <= c)%nat -> (c <= length l)%nat ->
  forall m, (m <= (c - a) / 2)%nat -> forall k,
  nth k (fold_left lswap (map (fun t => (a + t, c - 1 - t)%nat) (seq 0 m)) l) [] =
  if ((a <=? k) && (k <? a + m) || (c - m <=? k) && (k <? c))%nat then nth (a + c - 1 - k) l [] else nth k l [].
Proof.
  intros Hac Hcl. assert (H2 : (2 * ((c - a) / 2) <= c - a)%nat) by (apply Nat.mul_div_le; lia).
  induction m as [|m IH]; intros Hm k.
  - cbn [seq map fold_left].
    replace ((a <=? k) && (k <? a + 0))%nat with false by (symmetry; apply andb_false_iff; destruct (Nat.leb_spec a k); [right; apply Nat.ltb_ge; lia|left; reflexivity]).
    replace ((c - 0 <=? k) && (k <? c))%nat with false by (symmetry; apply andb_false_iff; destruct (Nat.leb_spec (c - 0) k); [right; apply Nat.ltb_ge; lia|left; reflexivity]).
    reflexivity.
  - rewrite seq_S, map_app, fold_left_app. cbn [map fold_left Nat.add].
    set (l1 := fold_left lswap (map (fun t => (a + t, c - 1 - t)%nat) (seq 0 m)) l) in *.
    assert (Hl1 : length l1 = length l).
    { unfold l1. clear. generalize (map (fun t => (a + t, c - 1 - t)%nat) (seq 0 m)). intros ps. revert l.
      induction ps as [|p ps IHp]; intros l; [reflexivity|]. cbn [fold_left]. rewrite IHp. apply lswap_length. }
    rewrite nth_lswap by (rewrite Hl1; lia).
    rewrite !IH by lia.
    destruct (Nat.eqb_spec k (a + m)) as [->|Hk1].
    + replace ((a <=? c - 1 - m) && (c - 1 - m <? a + m) || (c - m <=? c - 1 - m) && (c - 1 - m <? c))%nat with false.
      2:{ symmetry. apply orb_false_iff. split; apply andb_false_iff.
          - right. apply Nat.ltb_ge. lia.
          - left. apply Nat.leb_gt. lia. }
      replace ((a <=? a + m) && (a + m <? a + S m) || (c - S m <=? a + m) && (a + m <? c))%nat with true.
      2:{ symmetry. apply orb_true_iff. left. apply andb_true_iff. split; [apply Nat.leb_le|apply Nat.ltb_lt]; lia. }
      f_equal. lia.
    + destruct (Nat.eqb_spec k (c - 1 - m)) as [->|Hk2].
      * replace ((a <=? a + m) && (a + m <? a + m) || (c - m <=? a + m) && (a + m <? c))%nat with false.
        2:{ symmetry. apply orb_false_iff. split; apply andb_false_iff.
            - right. apply Nat.ltb_ge. lia.
            - left. apply Nat.leb_gt. lia. }
        replace ((a <=? c - 1 - m) && (c - 1 - m <? a + S m) || (c - S m <=? c - 1 - m) && (c - 1 - m <? c))%nat with true.
        2:{ symmetry. apply orb_true_iff. right. apply andb_true_iff. split; [apply Nat.leb_le|apply Nat.ltb_lt]; lia. }
        f_equal. lia.
      * assert (E : ((a <=? k) && (k <? a + S m) || (c - S m <=? k) && (k <? c))%nat =
                    ((a <=? k) && (k <? a + m) || (c - m <=? k) && (k <? c))%nat).
        { destruct (Nat.leb_spec a k); destruct (Nat.ltb_spec k (a + S m)); destruct (Nat.ltb_spec k (a + m));
            destruct (Nat.leb_spec (c - S m) k); destruct (Nat.leb_spec (c - m) k); destruct (Nat.ltb_spec k c);
            cbn [andb orb]; try reflexivity; exfalso; lia. }
        rewrite E. reflexivity.
Qed.

Theorem reverse_elementwise (l : list tuple) a c : (a <= c)%nat -> (c <= length l)%nat -> forall k,
  nth k (fold_left lswap (rev_pairs_nat a c) l) [] =
  if ((a <=? k) && (k <? c))%nat then nth (a + c - 1 - k) l [] else nth k l [].
Proof.
  intros Hac Hcl k. unfold rev_pairs_nat. rewrite (fold_rev_nth l a c Hac Hcl ((c - a) / 2) (le_n _) k).
  assert (H2 : (2 * ((c - a) / 2) <= c - a)%nat) by (apply Nat.mul_div_le; lia).
  assert (H3 : (c - a < 2 * ((c - a) / 2) + 2)%nat).
  { pose proof (Nat.div_mod (c - a) 2 ltac:(lia)). pose proof (Nat.mod_upper_bound (c - a) 2 ltac:(lia)). lia. }
  set (h := ((c - a) / 2)%nat) in *.
  destruct (Nat.leb_spec a k); destruct (Nat.ltb_spec k (a + h)); destruct (Nat.leb_spec (c - h) k); destruct (Nat.ltb_spec k c);
    cbn [andb orb]; try reflexivity; try (exfalso; lia).
  (* the middle element of an odd segment stays where it is - and is its own mirror image *)
  f_equal. lia.
Qed.

Lemma fold_lswap_length : forall ps (l : list tuple), length (fold_left lswap ps l) = length l.
Proof. induction ps as [|p ps IH]; intros l; [reflexivity|]. cbn [fold_left]. rewrite IH. apply lswap_length. Qed.

(* std::rotate(begin + a, begin + b, begin + c), as three reversals: position k of [a, c) ends up
   holding what position k + (b - a) held (cyclically inside [a, c)) *)
Theorem rotate_elementwise (l : list tuple) a b c : (a <= b)%nat -> (b <= c)%nat -> (c <= length l)%nat -> forall k,
  nth k (fold_left lswap (rev_pairs_nat a b ++ rev_pairs_nat b c ++ rev_pairs_nat a c) l) [] =
  if ((a <=? k) && (k <? c))%nat
  then (if (k <? a + (c - b))%nat then nth (k + (b - a)) l [] else nth (k - (c - b)) l [])
  else nth k l [].
Proof.
  intros Hab Hbc Hcl k. rewrite !fold_left_app.
  set (l1 := fold_left lswap (rev_pairs_nat a b) l).
  set (l2 := fold_left lswap (rev_pairs_nat b c) l1).
  assert (H1 : length l1 = length l) by apply fold_lswap_length.
  assert (H2 : length l2 = length l) by (unfold l2; rewrite fold_lswap_length; exact H1).
  rewrite (reverse_elementwise l2 a c ltac:(lia) ltac:(lia) k).
  assert (E2 : forall j, nth j l2 [] = if ((b <=? j) && (j <? c))%nat then nth (b + c - 1 - j) l1 [] else nth j l1 []).
  { intros j. exact (reverse_elementwise l1 b c Hbc ltac:(lia) j). }
  assert (E1 : forall j, nth j l1 [] = if ((a <=? j) && (j <? b))%nat then nth (a + b - 1 - j) l [] else nth j l []).
  { intros j. exact (reverse_elementwise l a b Hab ltac:(lia) j). }
  destruct (Nat.leb_spec a k) as [Hak|Hak]; destruct (Nat.ltb_spec k c) as [Hkc|Hkc]; cbn [andb].
  - rewrite E2.
    destruct (Nat.leb_spec b (a + c - 1 - k)) as [Hb1|Hb1]; destruct (Nat.ltb_spec (a + c - 1 - k) c) as [Hc1|Hc1]; cbn [andb]; try (exfalso; lia).
    + rewrite E1.
      destruct (Nat.leb_spec a (b + c - 1 - (a + c - 1 - k))); destruct (Nat.ltb_spec (b + c - 1 - (a + c - 1 - k)) b); cbn [andb]; try (exfalso; lia).
      destruct (Nat.ltb_spec k (a + (c - b))); [|exfalso; lia]. f_equal. lia.
    + rewrite E1.
      destruct (Nat.leb_spec a (a + c - 1 - k)); destruct (Nat.ltb_spec (a + c - 1 - k) b); cbn [andb]; try (exfalso; lia).
      destruct (Nat.ltb_spec k (a + (c - b))); [exfalso; lia|]. f_equal. lia.
  - rewrite E2.
    destruct (Nat.leb_spec b k); destruct (Nat.ltb_spec k c); cbn [andb]; try (exfalso; lia).
    rewrite E1. destruct (Nat.leb_spec a k); destruct (Nat.ltb_spec k b); cbn [andb]; try (exfalso; lia). reflexivity.
  - rewrite E2.
    destruct (Nat.leb_spec b k); destruct (Nat.ltb_spec k c); cbn [andb]; try (exfalso; lia).
    rewrite E1. destruct (Nat.leb_spec a k); destruct (Nat.ltb_spec k b); cbn [andb]; try (exfalso; lia). reflexivity.
  - exfalso; lia.
Qed.

Theorem rotate_refines L : wf_plist L = true -> has_varying L = false ->
  forall v l offs a b c, RepO L v l offs -> (a <= b)%nat -> (b <= c)%nat -> (c <= length l)%nat ->
  RepO L (fst (swaps L true v v (rev_pairs (Z.of_nat a) (Z.of_nat b) ++ rev_pairs (Z.of_nat b) (Z.of_nat c) ++
                                  rev_pairs (Z.of_nat a) (Z.of_nat c))))
       (fold_left lswap (rev_pairs_nat a b ++ rev_pairs_nat b c ++ rev_pairs_nat a c) l) offs.
Proof.
  intros Hwf Hv v l offs a b c R Hab Hbc Hcl.
  rewrite <- (rev_pairs_nat_Z a b Hab), <- (rev_pairs_nat_Z b c Hbc), <- (rev_pairs_nat_Z a c ltac:(lia)).
  rewrite <- !map_app.
  apply (swaps_refine_exchanges L Hwf Hv _ (length l) v l offs R eq_refl).
  apply Forall_app. split; [|apply Forall_app; split]; apply rev_pairs_nat_valid; lia.
Qed.

(* std::swap_ranges(begin + a, begin + b, begin + c) within one vector, the ranges not overlapping *)
Definition range_pairs_nat (a b c : nat) : list (nat * nat) :=
  map (fun t => (a + t, c + t)%nat) (seq 0 (b - a)).

Lemma range_pairs_nat_Z a b c : (a <= b)%nat ->
  map (fun ij => (Z.of_nat (fst ij), Z.of_nat (snd ij))) (range_pairs_nat a b c) =
  range_pairs (Z.of_nat a) (Z.of_nat b) (Z.of_nat c).
Proof.
  intros Hab. unfold range_pairs_nat, range_pairs. rewrite map_map.
  replace (Z.to_nat (Z.of_nat b - Z.of_nat a)) with (b - a)%nat by lia.
  apply map_ext_in. intros t Ht. cbn [fst snd]. f_equal; lia.
Qed.

Lemma fold_range_nth (l : list tuple) a c n : (c + n <= length l)%nat -> (a + n <= length l)%nat ->
  (a + n <= c \/ c + n <= a)%nat ->
  forall m, (m <= n)%nat -> forall k,
  nth k (fold_left lswap (map (fun t => (a + t, c + t)%nat) (seq 0 m)) l) [] =
  if ((a <=? k) && (k <? a + m))%nat then nth (k - a + c) l []
  else if ((c <=? k) && (k <? c + m))%nat then nth (k - c + a) l [] else nth k l [].
Proof.
  intros Hc Ha Hd. induction m as [|m IH]; intros Hm k.
  - cbn [seq map fold_left].
    destruct (Nat.leb_spec a k); destruct (Nat.ltb_spec k (a + 0)); destruct (Nat.leb_spec c k); destruct (Nat.ltb_spec k (c + 0));
      cbn [andb]; try reflexivity; exfalso; lia.
  - rewrite seq_S, map_app, fold_left_app. cbn [map fold_left Nat.add].
    set (l1 := fold_left lswap (map (fun t => (a + t, c + t)%nat) (seq 0 m)) l) in *.
    assert (Hl1 : length l1 = length l) by apply fold_lswap_length.
    rewrite nth_lswap by (rewrite Hl1; lia).
    rewrite !IH by lia.
    destruct (Nat.eqb_spec k (a + m)) as [->|Hk1].
    + (* position a + m receives what position c + m held *)
      destruct (Nat.leb_spec a (c + m)); destruct (Nat.ltb_spec (c + m) (a + m)); destruct (Nat.leb_spec c (c + m)); destruct (Nat.ltb_spec (c + m) (c + m));
        cbn [andb]; try (exfalso; lia);
      destruct (Nat.leb_spec a (a + m)); destruct (Nat.ltb_spec (a + m) (a + S m)); cbn [andb]; try (exfalso; lia); f_equal; lia.
    + destruct (Nat.eqb_spec k (c + m)) as [->|Hk2].
      * destruct (Nat.leb_spec a (a + m)); destruct (Nat.ltb_spec (a + m) (a + m)); destruct (Nat.leb_spec c (a + m)); destruct (Nat.ltb_spec (a + m) (c + m));
          cbn [andb]; try (exfalso; lia);
        destruct (Nat.leb_spec a (c + m)); destruct (Nat.ltb_spec (c + m) (a + S m)); destruct (Nat.leb_spec c (c + m)); destruct (Nat.ltb_spec (c + m) (c + S m));
          cbn [andb]; try (exfalso; lia); f_equal; lia.
      * destruct (Nat.leb_spec a k); destruct (Nat.ltb_spec k (a + S m)); destruct (Nat.ltb_spec k (a + m));
          destruct (Nat.leb_spec c k); destruct (Nat.ltb_spec k (c + S m)); destruct (Nat.ltb_spec k (c + m));
          cbn [andb]; try reflexivity; exfalso; lia.
Qed.

Theorem swap_ranges_elementwise (l : list tuple) a b c : (a <= b)%nat -> (b <= length l)%nat ->
  (c + (b - a) <= length l)%nat -> (b <= c \/ c + (b - a) <= a)%nat -> forall k,
  nth k (fold_left lswap (range_pairs_nat a b c) l) [] =
  if ((a <=? k) && (k <? b))%nat then nth (k - a + c) l []
  else if ((c <=? k) && (k <? c + (b - a)))%nat then nth (k - c + a) l [] else nth k l [].
Proof.
  intros Hab Hbl Hcl Hd k. unfold range_pairs_nat.
  rewrite (fold_range_nth l a c (b - a) ltac:(lia) ltac:(lia) ltac:(lia) (b - a) (le_n _) k).
  replace (a + (b - a))%nat with b by lia. reflexivity.
Qed.

Theorem swap_ranges_refines L : wf_plist L = true -> has_varying L = false ->
  forall v l offs a b c, RepO L v l offs -> (a <= b)%nat -> (b <= length l)%nat ->
  (c + (b - a) <= length l)%nat -> (b <= c \/ c + (b - a) <= a)%nat ->
  RepO L (fst (swaps L true v v (range_pairs (Z.of_nat a) (Z.of_nat b) (Z.of_nat c))))
       (fold_left lswap (range_pairs_nat a b c) l) offs.
Proof.
  intros Hwf Hv v l offs a b c R Hab Hbl Hcl Hd. rewrite <- (range_pairs_nat_Z a b c Hab).
  apply (swaps_refine_exchanges L Hwf Hv _ (length l) v l offs R eq_refl).
  unfold range_pairs_nat. apply Forall_forall. intros ij Hin. apply in_map_iff in Hin.
  destruct Hin as (t & <- & Ht). apply in_seq in Ht. cbn [fst snd]. lia.
Qed.

(* ---------- assignment and swap between elements of TWO vectors, at the level of the lists ---------- *)
(* a tuple that has the field sizes of a tuple of another shape description fits that description *)
Lemma tuple_ok_transfer : forall L fc fc' p p' t t',
  tuple_ok L fc p t -> tuple_ok L fc' p' t' -> cnts_of t = cnts_of t' -> tuple_ok L fc' p t.
Proof.
  induction L as [|q L IH]; intros fc fc' p p' t t' Ht Ht' Hc.
  - destruct t; [exact I|destruct fc; contradiction].
  - destruct fc as [|c fc]; [destruct t; contradiction|]. destruct t as [|f t]; [contradiction|].
    destruct fc' as [|c' fc']; [destruct t'; contradiction|]. destruct t' as [|f' t']; [contradiction|].
    cbn [tuple_ok] in *. destruct Ht as (Hf & Hl & Hr). destruct Ht' as (_ & Hl' & Hr').
    unfold cnts_of in Hc. cbn [map] in Hc. inversion Hc as [[Hlen Hrest]].
    split; [exact Hf|]. split.
    + destruct (pk q); congruence.
    + exact (IH fc fc' _ _ t t' Hr Hr' Hrest).
Qed.

Section TwoVectors.
  Variable L : list param.
  Hypothesis Hwf : wf_plist L = true.

  (* the extents of two different elements of a represented vector do not meet *)
  Lemma elem_extents_disjoint v l offs i k z : RepO L v l offs -> (i < length l)%nat -> (k < length l)%nat -> k <> i ->
    nth k offs 0 <= z < elem_end L (nth k offs 0) (nth k l []) ->
    ~ (nth i offs 0 <= z < elem_end L (nth i offs 0) (nth i l [])).
  Proof.
    intros R Hi Hk Hki Hz. pose proof (eo_length L _ _ _ _ (r_order _ _ _ _ R)) as Hlen.
    destruct (Nat.lt_ge_cases k i) as [Hlt|Hge].
    - pose proof (eo_pair L Hwf _ _ _ _ (r_order _ _ _ _ R) k i ltac:(rewrite Hlen; lia)). lia.
    - pose proof (eo_pair L Hwf _ _ _ _ (r_order _ _ _ _ R) i k ltac:(rewrite Hlen; lia)). lia.
  Qed.

  (* replacing the bytes of element i by a tuple of the same shape *)
  Lemma rep_replace_elem v l offs i t m' : RepO L v l offs -> (i < length l)%nat ->
    tuple_ok L (fixed_counts L (v_fixed v)) 0 t -> cnts_of t = cnts_of (nth i l []) ->
    elem_at L m' (nth i offs 0) t ->
    (forall z, ~ (nth i offs 0 <= z < elem_end L (nth i offs 0) (nth i l [])) -> m' z = v_mem v z) ->
    RepO L (set_mem v m') (upd i t l) offs.
  Proof.
    intros R Hi Ht Hc He Hfr. pose proof (eo_length L _ _ _ _ (r_order _ _ _ _ R)) as Hlen.
    apply (rep_same_shape L v l offs (upd i t l) m' R).
    - apply (Forall2_of_nth _ ([] : tuple) ([] : tuple)); [rewrite upd_length; reflexivity|].
      intros k Hk. cbn beta. rewrite (upd_nth ([] : tuple) i t l k Hi).
      destruct (Nat.eqb_spec k i) as [->|_]; [exact Hc|reflexivity].
    - apply (Forall_of_nth _ ([] : tuple)). intros k Hk. rewrite upd_length in Hk. rewrite (upd_nth ([] : tuple) i t l k Hi).
      destruct (Nat.eqb_spec k i) as [->|_]; [exact Ht|exact (proj1 (rep_ref L Hwf v l offs k R Hk))].
    - apply (Forall2_of_nth _ 0 ([] : tuple)); [rewrite upd_length; exact Hlen|].
      intros k Hk. rewrite Hlen in Hk. cbn beta. rewrite (upd_nth ([] : tuple) i t l k Hi).
      destruct (Nat.eqb_spec k i) as [->|Hne]; [exact He|].
      destruct (rep_ref L Hwf v l offs k R Hk) as (Htk & Hek & _).
      apply (elem_at_ext L Hwf (v_mem v) m' _ _ _ Htk); [|exact Hek].
      intros z Hz. apply Hfr. exact (elem_extents_disjoint v l offs i k z R Hi Hk Hne Hz).
  Qed.

  Variables (vd vs : vec) (ld ls : list tuple) (od os : list Z).
  Hypothesis Rd : RepO L vd ld od.
  Hypothesis Rs : RepO L vs ls os.
  Variables (i j : nat).
  Hypothesis Hi : (i < length ld)%nat.
  Hypothesis Hj : (j < length ls)%nat.
  Hypothesis Hc : cnts_of (nth i ld []) = cnts_of (nth j ls []).

  Lemma off_ok2 v l offs k : RepO L v l offs -> (k < length l)%nat -> 0 <= nth k offs 0 /\ (SA L | nth k offs 0).
  Proof.
    intros R Hk. pose proof (eo_bounds L Hwf _ _ _ _ (r_order _ _ _ _ R)) as Hb.
    pose proof (eo_length L _ _ _ _ (r_order _ _ _ _ R)) as Hlen.
    pose proof (Forall2_nth_ _ offs l 0 [] k Hb ltac:(rewrite Hlen; exact Hk)) as H. cbn beta in H. tauto.
  Qed.

  Lemma end_shift2 : elem_end L (nth i od 0) (nth i ld []) = nth i od 0 + (elem_end L (nth j os 0) (nth j ls []) - nth j os 0).
  Proof.
    rewrite (elem_end_cnts L (nth i od 0) (nth j ls []) (nth i ld []) Hc).
    replace (nth i od 0) with (nth j os 0 + (nth i od 0 - nth j os 0)) at 1 by lia.
    rewrite (elem_end_shift L Hwf); [lia|].
    apply Z.divide_sub_r; [exact (proj2 (off_ok2 vd ld od i Rd Hi))|exact (proj2 (off_ok2 vs ls os j Rs Hj))].
  Qed.
  Lemma end_shift2' : elem_end L (nth j os 0) (nth j ls []) = nth j os 0 + (elem_end L (nth i od 0) (nth i ld []) - nth i od 0).
  Proof. rewrite end_shift2. lia. Qed.

  (* vd[i] = vs[j] *)
  Theorem ref_assign_refines_update_two :
    let r := ref_assign false L false vd (Z.of_nat i) vs (Z.of_nat j) in
    RepO L (fst (fst r)) (upd i (nth j ls []) ld) od /\ RepO L (snd (fst r)) ls os.
  Proof.
    cbv zeta. unfold ref_assign.
    destruct (rep_ref L Hwf vd ld od i Rd Hi) as (Hti & Hei & Hfi).
    destruct (rep_ref L Hwf vs ls os j Rs Hj) as (Htj & Hej & Hfj).
    rewrite Hfi, Hfj.
    pose proof (ref_assign_copy L Hwf (nth j ls []) (nth i ld []) _ _ Htj Hti Hc (v_mem vs) (v_mem vd) (nth j os 0) (nth i od 0)
                  (off_ok2 vs ls os j Rs Hj) (off_ok2 vd ld od i Rd Hi) Hej (bidn (v_bid vs)) (bidn (v_bid vd))) as H.
    cbv zeta in H.
    destruct (assign_all false L (bidn (v_bid vs)) (bidn (v_bid vd)) _ _ _ (seq 0 (length L))) as [x evs].
    cbn [fst snd] in *. destruct H as (Hs & Hel & Hfr). split.
    - apply rep_replace_elem; auto.
      + exact (tuple_ok_transfer L _ _ _ _ _ _ Htj Hti (eq_sym Hc)).
      + intros z Hz. apply Hfr. rewrite <- end_shift2. exact Hz.
    - apply (rep_mem_ext L Hwf); [exact Rs|]. intros z. rewrite Hs. reflexivity.
  Qed.

  (* swap(vd[i], vs[j]) *)
  Theorem ref_swap_refines_exchange_two :
    let r := ref_swap L false vd (Z.of_nat i) vs (Z.of_nat j) in
    RepO L (fst (fst r)) (upd i (nth j ls []) ld) od /\ RepO L (snd (fst r)) (upd j (nth i ld []) ls) os.
  Proof.
    cbv zeta. unfold ref_swap.
    destruct (rep_ref L Hwf vd ld od i Rd Hi) as (Hti & Hei & Hfi).
    destruct (rep_ref L Hwf vs ls os j Rs Hj) as (Htj & Hej & Hfj).
    rewrite Hfi, Hfj.
    pose proof (ref_swap_exchanges L Hwf (nth j ls []) (nth i ld []) _ _ Htj Hti Hc (v_mem vs) (v_mem vd) (nth j os 0) (nth i od 0)
                  (off_ok2 vs ls os j Rs Hj) (off_ok2 vd ld od i Rd Hi) Hej Hei (bidn (v_bid vs)) (bidn (v_bid vd))) as H.
    cbv zeta in H.
    destruct (swap_all L (bidn (v_bid vs)) (bidn (v_bid vd)) _ _ _ (seq 0 (length L))) as [x evs].
    cbn [fst snd] in *. destruct H as (H1 & H2 & H3 & H4). split.
    - apply rep_replace_elem; auto.
      + exact (tuple_ok_transfer L _ _ _ _ _ _ Htj Hti (eq_sym Hc)).
      + intros z Hz. apply H4. rewrite <- end_shift2. exact Hz.
    - apply rep_replace_elem; auto.
      + exact (tuple_ok_transfer L _ _ _ _ _ _ Hti Htj Hc).
      + intros z Hz. apply H3. replace (nth j os 0 + (elem_end L (nth j os 0) (nth j ls []) - nth j os 0)) with (elem_end L (nth j os 0) (nth j ls [])) by lia. exact Hz.
  Qed.
End TwoVectors.
