(* driver.ml — hand-written glue around the extracted model (trusted): parses a script,
   runs Model.run (or the static layout functions) and prints observation lines. *)
open Model

let rec pos_of_int n = if n = 1 then XH else if n land 1 = 0 then XO (pos_of_int (n lsr 1)) else XI (pos_of_int (n lsr 1))
let z_of_int n = if n = 0 then Z0 else if n > 0 then Zpos (pos_of_int n) else Zneg (pos_of_int (-n))
let rec int_of_pos = function XH -> 1 | XO p -> 2 * int_of_pos p | XI p -> 2 * int_of_pos p + 1
let int_of_z = function Z0 -> 0 | Zpos p -> int_of_pos p | Zneg p -> - (int_of_pos p)
let rec nat_of_int n = if n <= 0 then O else S (nat_of_int (n - 1))
let rec int_of_nat = function O -> 0 | S n -> 1 + int_of_nat n

(* big integers for the 64-bit leaf grid: decimal strings <-> Z *)
let z_of_string s =
  let neg = String.length s > 0 && s.[0] = '-' in
  let s = if neg then String.sub s 1 (String.length s - 1) else s in
  let ten = z_of_int 10 in
  let r = ref Z0 in
  String.iter (fun c -> r := Z.add (Z.mul !r ten) (z_of_int (Char.code c - 48))) s;
  if neg then Z.opp !r else !r
let string_of_z z =
  let neg = (match z with Zneg _ -> true | _ -> false) in
  let z = Z.abs z in
  if z = Z0 then "0" else begin
    let ten = z_of_int 10 in
    let b = Buffer.create 20 in
    let r = ref z in
    let digits = ref [] in
    while !r <> Z0 do
      let q = Z.div !r ten and m = Z.modulo !r ten in
      digits := (int_of_z m) :: !digits; r := q
    done;
    if neg then Buffer.add_char b '-';
    List.iter (fun d -> Buffer.add_char b (Char.chr (48 + d))) !digits;
    Buffer.contents b
  end

let kind_of_int = function 0 -> Plain | 1 -> Fixed | _ -> Varying
let ty_of_int = function 0 -> TBlob | 1 -> TUInt | 2 -> TSInt | 3 -> TU8 | 4 -> TS8 | 5 -> TByte | 6 -> TTrk | 7 -> TTrkC | 8 -> TTrkMA | 9 -> TTrkCA | 10 -> TFlt | 11 -> TTrkCC | 12 -> TTrkMC | _ -> TSw

let zs l = String.concat " " (List.map (fun z -> string_of_int (int_of_z z)) l)
let hex objs =
  let b = Buffer.create 64 in
  List.iter (fun o -> List.iter (fun z -> Buffer.add_string b (Printf.sprintf "%02x" (int_of_z z))) o) objs;
  if Buffer.length b = 0 then "-" else Buffer.contents b

let print_ev e =
  let i = int_of_z and n = int_of_nat in
  match e with
  | EAlloc (a, u, c, b) -> Printf.printf "EV A %d %d %d %d\n" (i a) (i u) (i c) (n b)
  | EDealloc (a, u, c, b) -> Printf.printf "EV D %d %d %d %d\n" (i a) (i u) (i c) (n b)
  | ECtor (b, o, s) -> Printf.printf "EV CT %d %d %d\n" (n b) (i o) (i s)
  | ECopyC (b, o, s, sb, so) -> Printf.printf "EV CC %d %d %d %d %d\n" (n b) (i o) (i s) (n sb) (i so)
  | EMoveC (b, o, s, sb, so) -> Printf.printf "EV MC %d %d %d %d %d\n" (n b) (i o) (i s) (n sb) (i so)
  | EDtor (b, o, s) -> Printf.printf "EV DT %d %d %d\n" (n b) (i o) (i s)
  | ECopyA (b, o, s, sb, so) -> Printf.printf "EV CA %d %d %d %d %d\n" (n b) (i o) (i s) (n sb) (i so)
  | EMoveA (b, o, s, sb, so) -> Printf.printf "EV MA %d %d %d %d %d\n" (n b) (i o) (i s) (n sb) (i so)
  | ESwapO (b, o, s, sb, so) -> Printf.printf "EV SW %d %d %d %d %d\n" (n b) (i o) (i s) (n sb) (i so)
  | ERaw (b, lo, hi) -> Printf.printf "RAW %d %d %d\n" (n b) (i lo) (i hi)

let print_obs o =
  let i = int_of_z and n = int_of_nat in
  match o with
  | OStep k -> Printf.printf "STEP %d\n" (n k)
  | OEv e -> print_ev e
  | ORes r -> Printf.printf "RES %d\n" (i r)
  | OElem (e, aid, bid, u, fields) ->
      Printf.printf "ELEM %d %d %d %d\n" (n e) (i aid) (n bid) (i u);
      List.iteri (fun f (fo, objs) -> Printf.printf "F %d %d %d %s\n" f (i fo) (List.length objs) (hex objs)) fields
  | OENull e -> Printf.printf "ENULL %d\n" (n e)
  | OEGone e -> Printf.printf "EGONE %d\n" (n e)
  | OCase (st, mvd) ->
      Printf.printf "STORED %s\n" (if st = [] then "-" else String.concat "," (List.map (fun o -> hex [o]) st));
      Printf.printf "MOVED%s\n" (String.concat "" (List.map (fun z -> " " ^ string_of_int (int_of_z z)) mvd))
  | OAFail (a, u, c) -> Printf.printf "EV AFAIL %d %d %d\n" (i a) (i u) (i c)
  | OThrow -> Printf.printf "THROW\n"
  | OThreads k -> Printf.printf "THREADS %d 1\n" (n k)
  | OEByte (ok, b) -> Printf.printf "EBYTE %d %d\n" (if ok then 1 else 0) (int_of_z b)
  | OIter r -> Printf.printf "ITER %s\n" (zs r)
  | OCmp r -> Printf.printf "CMP %s\n" (String.concat " " (List.map (fun b -> if b then "1" else "0") r))
  | ONull (s, sz) -> Printf.printf "NULL %d %d\n" (n s) (i sz)
  | OGone s -> Printf.printf "GONE %d\n" (n s)
  | OVec (s, sz, cap, cons, aid, bid, db, de, fixed, elems) ->
      Printf.printf "VEC %d %d %d %d %d %d %d %d F%s\n" (n s) (i sz) (i cap) (i cons) (i aid) (n bid) (i db) (i de) (String.concat "" (List.map (fun z -> " " ^ string_of_int (int_of_z z)) fixed));
      List.iteri (fun k (off, fields) ->
        Printf.printf "E %d %d\n" k (i off);
        List.iteri (fun f (fo, objs) ->
          Printf.printf "F %d %d %d %s\n" f (i fo) (List.length objs) (hex objs)) fields) elems

let tokens line = List.filter (fun s -> s <> "") (String.split_on_char ' ' (String.trim line))

let parse_op params toks =
  let ints l = List.map int_of_string l in
  let take n l = let rec go n l acc = if n = 0 then (List.rev acc, l) else match l with x :: r -> go (n-1) r (x :: acc) | [] -> failwith "short" in go n l [] in
  let nat s = nat_of_int (int_of_string s) and z s = z_of_int (int_of_string s) in
  match toks with
  | "mkvec" :: r -> (match ints r with s :: cap :: bud :: aid :: nf :: r -> let (f, _) = take nf r in
        OpMkVec (nat_of_int s, z_of_int cap, z_of_int bud, List.map z_of_int f, z_of_int aid) | _ -> failwith "mkvec")
  | "default" :: [s] -> OpDefault (nat s)
  | "emplace" :: r ->
      (match ints r with s :: rest ->
        let rest = ref rest in
        let vals = List.map (fun p ->
          match !rest with
          | nobj :: r ->
              rest := r;
              let sz = int_of_z p.psz in
              List.init nobj (fun _ -> let (o, r) = take sz !rest in rest := r; List.map z_of_int o)
          | [] -> failwith "emplace") params in
        OpEmplace (nat_of_int s, vals)
      | _ -> failwith "emplace")
  | "emplaceat" :: r ->
      (match ints r with s :: pos :: rest ->
        let rest = ref rest in
        let vals = List.map (fun p ->
          match !rest with
          | nobj :: r ->
              rest := r;
              let sz = int_of_z p.psz in
              List.init nobj (fun _ -> let (o, r) = take sz !rest in rest := r; List.map z_of_int o)
          | [] -> failwith "emplaceat") params in
        OpEmplaceAt (nat_of_int s, z_of_int pos, vals)
      | _ -> failwith "emplaceat")
  | "popback" :: [s] -> OpPopBack (nat s)
  | "erase" :: [s; i] -> OpErase (nat s, z i)
  | "eraserange" :: [s; i; j] -> OpEraseRange (nat s, z i, z j)
  | "clear" :: [s] -> OpClear (nat s)
  | "reserve" :: [s; n; b] -> OpReserve (nat s, z n, z b)
  | "destroy" :: [s] -> OpDestroy (nat s)
  | "copyctor" :: [d; s] -> OpCopyCtor (nat d, nat s)
  | "copyassign" :: [d; s] -> OpCopyAssign (nat d, nat s)
  | "movector" :: [d; s] -> OpMoveCtor (nat d, nat s)
  | "moveassign" :: [d; s] -> OpMoveAssign (nat d, nat s)
  | "swap" :: [a; b] -> OpSwap (nat a, nat b)
  | "junk" :: [b] -> OpJunk (z b)
  | "failat" :: [k] -> OpFailAt (nat k)
  | "refassign" :: [d; i; s; j; form] -> OpRefAssign (nat d, z i, nat s, z j, form = "2")
  | "refswap" :: [a; i; b; j; _] -> OpRefSwap (nat a, z i, nat b, z j)
  | "write" :: s :: i :: k :: o :: _ :: bs -> OpWrite (nat s, z i, nat k, z o, List.map z bs)
  | "algo" :: [kind; s; a; b; c; s2] -> OpAlgo (nat kind, nat s, z a, z b, z c, nat s2)
  | "iter" :: [s; i; j] -> OpIter (nat s, z i, z j)
  | "efromref" :: [e; s; i; form; aid] -> OpEFromRef (nat e, nat s, z i, form = "2", (if int_of_string aid < 0 then Z0 else z aid))
  | "ecopy" :: [d; s] -> OpECopy (nat d, nat s)
  | "ecopyalloc" :: [d; s; aid] -> OpECopyAlloc (nat d, nat s, z aid)
  | "emove" :: [d; s] -> OpEMove (nat d, nat s)
  | "emovealloc" :: [d; s; aid] -> OpEMoveAlloc (nat d, nat s, z aid)
  | "ecopyassign" :: [d; s] -> OpECopyAssign (nat d, nat s)
  | "emoveassign" :: [d; s] -> OpEMoveAssign (nat d, nat s)
  | "eswap" :: [a; b] -> OpESwap (nat a, nat b)
  | "eassignref" :: [e; s; i; form] -> OpEAssignRef (nat e, nat s, z i, form = "2")
  | "refassigne" :: [s; i; e; form] -> OpRefAssignE (nat s, z i, nat e, form = "2")
  | "edestroy" :: [e] -> OpEDestroy (nat e)
  | "eobserve" :: [e] -> OpEObserve (nat e)
  | "ecmpe" :: [a; b] -> OpECmpE (nat a, nat b)
  | "ecmpr" :: [e; s; i] -> OpECmpR (nat e, nat s, z i)
  | "case" :: _ :: tc :: uc :: fc :: rv :: _ :: n :: vals -> OpCase (nat tc, nat uc, nat fc, rv = "1", nat n, List.map z_of_string vals)
  | ("pagemode" | "protect" | "unprotect") :: _ -> OpNop
  | "constops" :: [s; t] -> OpConstOps (nat s, nat t)
  | "threads" :: [s; t; k] -> OpThreads (nat s, nat t, nat k)
  | "ebyteprobe" :: [s; i] -> OpEByte (nat s, z i)
  | "cmpvec" :: [a; b] -> OpCmpVec (nat a, nat b)
  | "cmpref" :: [a; i; b; j] -> OpCmpRef (nat a, z i, nat b, z j)
  | "observe" :: [s] -> OpObserve (nat s)
  | t :: _ -> failwith ("unknown op " ^ t)
  | [] -> failwith "empty"

let print_static l statics =
  Printf.printf "SA %d\n" (int_of_z (sA l));
  Printf.printf "LARGEST %s\n" (zs (largest l));
  Printf.printf "TRAILS %s\n" (zs (trails l));
  let ridx r = String.concat " " (List.map (function RSkip -> "S" | RManual -> "M" | REnd e -> string_of_int (int_of_nat e)) r) in
  Printf.printf "RUNS asg %s\n" (ridx (runs_asg false l));
  Printf.printf "RUNS asgm %s\n" (ridx (runs_asg true l));
  Printf.printf "RUNS swp %s\n" (ridx (runs_swp l));
  Printf.printf "RUNS eq %s\n" (ridx (runs_eq l));
  Printf.printf "RUNS lex %s\n" (ridx (runs_lex l));
  Printf.printf "PADFREE %d\n" (if padfree l then 1 else 0);
  (let sa = int_of_z (sA l) in
   let ks = List.init (min (2 * sa) 512) (fun k -> k) in
   Printf.printf "FIRST %s\n" (String.concat " " (List.map (fun k -> string_of_int (int_of_z (first_align l (z_of_int k)) - k)) ks)));
  List.iter (function
    | `Static f ->
        let (sz, st) = esize l (List.map z_of_int f) in
        Printf.printf "ESIZE%s : %d %d\n" (String.concat "" (List.map (fun x -> " " ^ string_of_int x) f)) (int_of_z sz) (int_of_z st)
    | `Needed (n, b, f) ->
        let e = esize l (List.map z_of_int f) in
        let nd = needed (z_of_int n) (z_of_int b) e in
        Printf.printf "NEEDED %d %d : %d %d\n" n b (int_of_z nd) (int_of_z (units l nd))) statics

exception Timeout

let () =
  let file = Sys.argv.(1) in
  let ic = open_in file in
  let params = ref [] in
  let k = ref { pocca = false; pocma = false; pocs = false; always_eq = true; soccc_bump = false } in
  let statics = ref [] in
  let scripts = ref [] in          (* (id, ops) reversed *)
  let cur = ref None in
  let multi = ref false in
  let ints l = List.map int_of_string l in
  let take n l = let rec go n l acc = if n = 0 then (List.rev acc, l) else match l with x :: r -> go (n-1) r (x :: acc) | [] -> failwith "short" in go n l [] in
  (try while true do
    let line = input_line ic in
    match tokens line with
    | [] -> ()
    | t :: _ when String.length t > 0 && t.[0] = '#' -> ()
    | "LIST" :: [id] -> multi := true; params := []; statics := []; cur := Some (id, [])
    | "ENDLIST" :: _ ->
        (match !cur with
         | Some (id, _) -> Printf.printf "BEGIN %s\n" id; print_static (List.rev !params) (List.rev !statics); Printf.printf "END\n"
         | None -> ());
        cur := None; params := []; statics := []
    | "K" :: r -> (match ints r with [a;b;c;d;e] -> k := { pocca = a<>0; pocma = b<>0; pocs = c<>0; always_eq = d<>0; soccc_bump = e<>0 } | _ -> failwith "K")
    | "P" :: r -> (match ints r with [kd;sz;al;ty] -> params := { pk = kind_of_int kd; psz = z_of_int sz; pal = z_of_int al; pty = ty_of_int ty } :: !params | _ -> failwith "P")
    | "static" :: r -> (match ints r with nf :: r -> let (f, _) = take nf r in statics := `Static f :: !statics | _ -> failwith "static")
    | "needed" :: r -> (match ints r with n :: b :: nf :: r -> let (f, _) = take nf r in statics := `Needed (n, b, f) :: !statics | _ -> failwith "needed")
    | "BEGIN" :: [id] -> cur := Some (id, [])
    | "END" :: _ -> (match !cur with Some (id, ops) -> scripts := (id, List.rev ops) :: !scripts; cur := None | None -> ())
    | toks -> (match !cur with
               | Some (id, ops) -> cur := Some (id, parse_op (List.rev !params) toks :: ops)
               | None -> failwith "op outside script")
  done with End_of_file -> ());
  close_in ic;
  let l = List.rev !params in
  if not !multi then print_static l (List.rev !statics);
  (* a section whose state has been corrupted (e.g. by the overlapping erase of the known
     finding) can decode astronomically large object counts: bound the time per section and
     print the observations of the longest prefix that completes *)
  let limit = try float_of_string (Sys.getenv "MODEL_SECTION_LIMIT") with Not_found -> 6.0 in
  let timed f =
    let old = Sys.signal Sys.sigalrm (Sys.Signal_handle (fun _ -> raise Timeout)) in
    ignore (Unix.setitimer Unix.ITIMER_REAL { Unix.it_interval = 0.0; Unix.it_value = limit });
    let stop () = ignore (Unix.setitimer Unix.ITIMER_REAL { Unix.it_interval = 0.0; Unix.it_value = 0.0 }); Sys.set_signal Sys.sigalrm old in
    match f () with
    | r -> stop (); Some r
    | exception Timeout -> stop (); None in
  let rec take_n n l = if n = 0 then [] else match l with x :: r -> x :: take_n (n-1) r | [] -> [] in
  List.iter (fun (id, ops) ->
    Printf.printf "BEGIN %s\n" id;
    (try
       match timed (fun () -> run !k l ops) with
       | Some obs -> List.iter print_obs obs
       | None ->
           (* longest prefix that completes within the limit: usually only the last one or
              two operations run on the corrupted state, so try those prefixes first *)
           let n = List.length ops in
           let lo = ref 0 and hi = ref n and best = ref [] in
           (try
              for d = 1 to 3 do
                if n - d > 0 && !lo = 0 then
                  (match timed (fun () -> run !k l (take_n (n - d) ops)) with
                   | Some obs -> lo := n - d; best := obs; hi := n - d + 1; raise Exit
                   | None -> hi := n - d)
              done
            with Exit -> ());
           while !hi - !lo > 1 do
             let mid = (!lo + !hi) / 2 in
             (match timed (fun () -> run !k l (take_n mid ops)) with
              | Some obs -> lo := mid; best := obs
              | None -> hi := mid)
           done;
           List.iter print_obs !best;
           Printf.printf "MODELTIMEOUT after %d steps\n" !lo
     with Stack_overflow | Out_of_memory -> Printf.printf "MODELFAIL\n");
    Printf.printf "END\n") (List.rev !scripts)
