(* driver.ml — hand-written glue around the extracted model (trusted): parses a script,
   runs Model.run (or the static layout functions) and prints observation lines. *)
open Model

let rec pos_of_int n = if n = 1 then XH else if n land 1 = 0 then XO (pos_of_int (n lsr 1)) else XI (pos_of_int (n lsr 1))
let z_of_int n = if n = 0 then Z0 else if n > 0 then Zpos (pos_of_int n) else Zneg (pos_of_int (-n))
let rec int_of_pos = function XH -> 1 | XO p -> 2 * int_of_pos p | XI p -> 2 * int_of_pos p + 1
let int_of_z = function Z0 -> 0 | Zpos p -> int_of_pos p | Zneg p -> - (int_of_pos p)
let rec nat_of_int n = if n <= 0 then O else S (nat_of_int (n - 1))
let rec int_of_nat = function O -> 0 | S n -> 1 + int_of_nat n

(* big integers for the 64-bit leaf grid: decimal strings <-> Z *)
let z_of_string s =
  let neg = String.length s > 0 && s.[0] = '-' in
  let s = if neg then String.sub s 1 (String.length s - 1) else s in
  let ten = z_of_int 10 in
  let r = ref Z0 in
  String.iter (fun c -> r := Z.add (Z.mul !r ten) (z_of_int (Char.code c - 48))) s;
  if neg then Z.opp !r else !r
let string_of_z z =
  let neg = (match z with Zneg _ -> true | _ -> false) in
  let z = Z.abs z in
  if z = Z0 then "0" else begin
    let ten = z_of_int 10 in
    let b = Buffer.create 20 in
    let r = ref z in
    let digits = ref [] in
    while !r <> Z0 do
      let q = Z.div !r ten and m = Z.modulo !r ten in
      digits := (int_of_z m) :: !digits; r := q
    done;
    if neg then Buffer.add_char b '-';
    List.iter (fun d -> Buffer.add_char b (Char.chr (48 + d))) !digits;
    Buffer.contents b
  end

let kind_of_int = function 0 -> Plain | 1 -> Fixed | _ -> Varying
let ty_of_int = function 0 -> TBlob | 1 -> TUInt | 2 -> TSInt | 3 -> TU8 | 4 -> TS8 | 5 -> TByte | _ -> TTrk

let zs l = String.concat " " (List.map (fun z -> string_of_int (int_of_z z)) l)
let hex objs =
  let b = Buffer.create 64 in
  List.iter (fun o -> List.iter (fun z -> Buffer.add_string b (Printf.sprintf "%02x" (int_of_z z))) o) objs;
  if Buffer.length b = 0 then "-" else Buffer.contents b

let print_ev e =
  let i = int_of_z and n = int_of_nat in
  match e with
  | EAlloc (a, u, c, b) -> Printf.printf "EV A %d %d %d %d\n" (i a) (i u) (i c) (n b)
  | EDealloc (a, u, c, b) -> Printf.printf "EV D %d %d %d %d\n" (i a) (i u) (i c) (n b)
  | ECtor (b, o, s) -> Printf.printf "EV CT %d %d %d\n" (n b) (i o) (i s)
  | ECopyC (b, o, s, sb, so) -> Printf.printf "EV CC %d %d %d %d %d\n" (n b) (i o) (i s) (n sb) (i so)
  | EMoveC (b, o, s, sb, so) -> Printf.printf "EV MC %d %d %d %d %d\n" (n b) (i o) (i s) (n sb) (i so)
  | EDtor (b, o, s) -> Printf.printf "EV DT %d %d %d\n" (n b) (i o) (i s)
  | ECopyA (b, o, s, sb, so) -> Printf.printf "EV CA %d %d %d %d %d\n" (n b) (i o) (i s) (n sb) (i so)
  | EMoveA (b, o, s, sb, so) -> Printf.printf "EV MA %d %d %d %d %d\n" (n b) (i o) (i s) (n sb) (i so)
  | ESwapO (b, o, s, sb, so) -> Printf.printf "EV SW %d %d %d %d %d\n" (n b) (i o) (i s) (n sb) (i so)
  | ERaw (b, lo, hi) -> Printf.printf "RAW %d %d %d\n" (n b) (i lo) (i hi)

let print_obs o =
  let i = int_of_z and n = int_of_nat in
  match o with
  | OStep k -> Printf.printf "STEP %d\n" (n k)
  | OEv e -> print_ev e
  | ORes r -> Printf.printf "RES %d\n" (i r)
  | ONull (s, sz) -> Printf.printf "NULL %d %d\n" (n s) (i sz)
  | OGone s -> Printf.printf "GONE %d\n" (n s)
  | OVec (s, sz, cap, cons, aid, bid, db, de, fixed, elems) ->
      Printf.printf "VEC %d %d %d %d %d %d %d %d F %s\n" (n s) (i sz) (i cap) (i cons) (i aid) (n bid) (i db) (i de) (zs fixed);
      List.iteri (fun k (off, fields) ->
        Printf.printf "E %d %d\n" k (i off);
        List.iteri (fun f (fo, objs) ->
          Printf.printf "F %d %d %d %s\n" f (i fo) (List.length objs) (hex objs)) fields) elems

let tokens line = List.filter (fun s -> s <> "") (String.split_on_char ' ' (String.trim line))

let () =
  let file = Sys.argv.(1) in
  let ic = open_in file in
  let params = ref [] and ops = ref [] in
  let k = ref { pocca = false; pocma = false; pocs = false; always_eq = true; soccc_bump = false } in
  let statics = ref [] in
  let ints l = List.map int_of_string l in
  let take n l = let rec go n l acc = if n = 0 then (List.rev acc, l) else match l with x :: r -> go (n-1) r (x :: acc) | [] -> failwith "short" in go n l [] in
  (try while true do
    let line = input_line ic in
    match tokens line with
    | [] -> ()
    | "#" :: _ -> ()
    | "K" :: r -> (match ints r with [a;b;c;d;e] -> k := { pocca = a<>0; pocma = b<>0; pocs = c<>0; always_eq = d<>0; soccc_bump = e<>0 } | _ -> failwith "K")
    | "P" :: r -> (match ints r with [kd;sz;al;ty] -> params := { pk = kind_of_int kd; psz = z_of_int sz; pal = z_of_int al; pty = ty_of_int ty } :: !params | _ -> failwith "P")
    | "static" :: r -> let l = ints r in (match l with nf :: r -> let (f, _) = take nf r in statics := `Static f :: !statics | _ -> failwith "static")
    | "needed" :: r -> (match ints r with n :: b :: nf :: r -> let (f, _) = take nf r in statics := `Needed (n, b, f) :: !statics | _ -> failwith "needed")
    | "mkvec" :: r -> (match ints r with s :: cap :: bud :: aid :: nf :: r -> let (f, _) = take nf r in
          ops := OpMkVec (nat_of_int s, z_of_int cap, z_of_int bud, List.map z_of_int f, z_of_int aid) :: !ops | _ -> failwith "mkvec")
    | "default" :: [s] -> ops := OpDefault (nat_of_int (int_of_string s)) :: !ops
    | "emplace" :: r ->
        let l = ints r in
        (match l with s :: rest ->
          let ps = List.rev !params in
          let rest = ref rest in
          let vals = List.map (fun p ->
            match !rest with
            | nobj :: r ->
                rest := r;
                let sz = int_of_z p.psz in
                let objs = List.init nobj (fun _ -> let (o, r) = take sz !rest in rest := r; List.map z_of_int o) in
                objs
            | [] -> failwith "emplace") ps in
          ops := OpEmplace (nat_of_int s, vals) :: !ops
        | _ -> failwith "emplace")
    | "popback" :: [s] -> ops := OpPopBack (nat_of_int (int_of_string s)) :: !ops
    | "erase" :: [s; i] -> ops := OpErase (nat_of_int (int_of_string s), z_of_int (int_of_string i)) :: !ops
    | "eraserange" :: [s; i; j] -> ops := OpEraseRange (nat_of_int (int_of_string s), z_of_int (int_of_string i), z_of_int (int_of_string j)) :: !ops
    | "clear" :: [s] -> ops := OpClear (nat_of_int (int_of_string s)) :: !ops
    | "reserve" :: [s; n; b] -> ops := OpReserve (nat_of_int (int_of_string s), z_of_int (int_of_string n), z_of_int (int_of_string b)) :: !ops
    | "destroy" :: [s] -> ops := OpDestroy (nat_of_int (int_of_string s)) :: !ops
    | "copyctor" :: [d; s] -> ops := OpCopyCtor (nat_of_int (int_of_string d), nat_of_int (int_of_string s)) :: !ops
    | "copyassign" :: [d; s] -> ops := OpCopyAssign (nat_of_int (int_of_string d), nat_of_int (int_of_string s)) :: !ops
    | "movector" :: [d; s] -> ops := OpMoveCtor (nat_of_int (int_of_string d), nat_of_int (int_of_string s)) :: !ops
    | "moveassign" :: [d; s] -> ops := OpMoveAssign (nat_of_int (int_of_string d), nat_of_int (int_of_string s)) :: !ops
    | "swap" :: [a; b] -> ops := OpSwap (nat_of_int (int_of_string a), nat_of_int (int_of_string b)) :: !ops
    | "junk" :: [b] -> ops := OpJunk (z_of_int (int_of_string b)) :: !ops
    | "observe" :: [s] -> ops := OpObserve (nat_of_int (int_of_string s)) :: !ops
    | t :: _ -> failwith ("unknown op " ^ t)
  done with End_of_file -> ());
  close_in ic;
  let l = List.rev !params in
  if l <> [] then begin
    Printf.printf "WF %d\n" (if wf_plist l then 1 else 0);
    Printf.printf "SA %d\n" (int_of_z (sA l));
    Printf.printf "LARGEST %s\n" (zs (largest l));
    Printf.printf "TRAILS %s\n" (zs (trails l));
  end;
  List.iter (function
    | `Static f ->
        let (sz, st) = esize l (List.map z_of_int f) in
        Printf.printf "ESIZE %s : %d %d\n" (String.concat " " (List.map string_of_int f)) (int_of_z sz) (int_of_z st)
    | `Needed (n, b, f) ->
        let e = esize l (List.map z_of_int f) in
        let nd = needed (z_of_int n) (z_of_int b) e in
        Printf.printf "NEEDED %d %d : %d %d\n" n b (int_of_z nd) (int_of_z (units l nd))) (List.rev !statics);
  List.iter print_obs (run !k l (List.rev !ops))
