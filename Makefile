# Top-level build of the verification framework (offline).
COQDIR := coq
BUILD := build
.PHONY: setup coq model clean
setup: coq model
coq:
	cd $(COQDIR) && coq_makefile -f _CoqProject -o Makefile.coq >/dev/null && $(MAKE) -f Makefile.coq -j16
model: coq
	mkdir -p $(BUILD)/model
	cd $(BUILD)/model && coqc -Q ../../$(COQDIR) Cntgs ../../$(COQDIR)/Extract.v >/dev/null
	cp ocaml/*.ml $(BUILD)/model/
	cd $(BUILD)/model && ocamlfind ocamlopt -package unix -linkpkg -w -a model.mli model.ml driver.ml -o model_run
clean:
	rm -rf $(BUILD); cd $(COQDIR) && rm -f *.vo *.vos *.vok *.glob .*.aux Makefile.coq Makefile.coq.conf Makefile Makefile.conf
